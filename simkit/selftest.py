"""Determinism self-test (DESIGN.md 2.5): same seed => same event log and same decision tape, cold and warm, in
a fresh interpreter under another PYTHONHASHSEED, seeds visited in opposite order."""
from __future__ import print_function

import hashlib
import json
import os
import subprocess
import sys

from . import VERIF
from .runner import load_prop, safe_run_tape
from .tape import Tape, hash64

ALL = ['C%02d' % i for i in range(1, 21)]


def digests(prop, seeds):
    mod = load_prop(prop)
    out = {}
    for s in seeds:
        t = Tape(s)
        run = safe_run_tape(mod, t)
        out[str(s)] = run.digest() + ':' + hashlib.sha256(repr(t.used).encode()).hexdigest()[:12] + ':' + \
            ','.join(sorted(v.signature for v in run.violations))
    return out


def main(prop, nseeds):
    if prop and prop.startswith('child:'):
        _, p, n, order = prop.split(':')
        seeds = [hash64('selftest', p, i) for i in range(int(n))]
        if order == 'rev':
            seeds.reverse()
        print('DIGESTS ' + json.dumps(digests(p, seeds)))
        return 0
    props = [prop.upper()] if prop else [p for p in ALL if os.path.exists(os.path.join(VERIF, 'props', p.lower() + '.py'))]
    bad = 0
    for p in props:
        seeds = [hash64('selftest', p, i) for i in range(nseeds)]
        a = digests(p, seeds)
        b = digests(p, seeds)
        diffs = [s for s in a if a[s] != b[s]]
        others = []
        for hs, order in (('0', 'rev'), ('4242', 'fwd'), ('987654', 'rev')):
            env = dict(os.environ, PYTHONHASHSEED=hs)
            outp = subprocess.check_output([os.path.join(VERIF, 'check'), 'selftest', 'child:%s:%d:%s' % (p, nseeds, order)],
                                           env=env, timeout=1800).decode()
            line = [l for l in outp.splitlines() if l.startswith('DIGESTS ')][-1]
            c = json.loads(line[len('DIGESTS '):])
            others.append(c)
            diffs += [s for s in a if a[s] != c[s]]
        if diffs:
            bad += 1
            print('HARNESS-ERROR nondeterminism %s: %d of %d seeds differ, e.g. seed %s' % (p, len(set(diffs)), nseeds, diffs[0]))
        else:
            print('selftest %s: %d seeds x (cold, warm, 3 fresh interpreters with other hash seeds, both orders): identical digests' % (p, nseeds))
    return 2 if bad else 0
