"""Tape minimisation (DESIGN.md 2.6): delete spans, zero spans, lower single entries.

A candidate is accepted iff re-running it reproduces a violation with the same signature.
"""
import time

from .tape import replay_tape


def _strip(t):
    t = list(t)
    while t and t[-1] == 0:
        t.pop()
    return t


def shrink(tape_values, reproduces, max_runs=1500, max_seconds=60.0):
    """reproduces(values) -> used tape (list) if the violation reproduces, else None."""
    start = time.time()
    runs = [0]

    def attempt(cand):
        if runs[0] >= max_runs or time.time() - start > max_seconds:
            return None
        runs[0] += 1
        return reproduces(cand)

    best = _strip(tape_values)
    first = attempt(best)
    if first is None:
        return list(tape_values), runs[0], False
    best = _strip(first) if len(_strip(first)) <= len(best) else best
    # 0. cut the tail: decisions after the violating step rarely matter (they replay as zeros); binary search the
    #    shortest prefix that still reproduces
    lo, hi = 0, len(best)
    while lo < hi:
        mid = (lo + hi) // 2
        if attempt(best[:mid]) is not None:
            hi = mid
        else:
            lo = mid + 1
    if hi < len(best) and attempt(best[:hi]) is not None:
        best = _strip(best[:hi])
    improved = True
    while improved and runs[0] < max_runs and time.time() - start <= max_seconds:
        improved = False
        # 1. delete spans
        size = max(1, len(best) // 2)
        while size >= 1:
            i = 0
            while i < len(best):
                cand = best[:i] + best[i + size:]
                used = attempt(cand)
                if used is not None and len(_strip(cand)) < len(best):
                    best = _strip(cand)
                    improved = True
                else:
                    i += size
            size //= 2
        # 2. zero spans
        size = max(1, len(best) // 2)
        while size >= 1:
            i = 0
            while i < len(best):
                if any(best[i:i + size]):
                    cand = best[:i] + [0] * len(best[i:i + size]) + best[i + size:]
                    used = attempt(cand)
                    if used is not None:
                        best = _strip(cand)
                        improved = True
                i += size
            size //= 2
        # 3. lower single entries
        for i in range(len(best)):
            if i >= len(best):
                break
            v = best[i]
            for cand_v in sorted(set([0, 1, v // 2, v - 1])):
                if 0 <= cand_v < v:
                    cand = best[:i] + [cand_v] + best[i + 1:]
                    used = attempt(cand)
                    if used is not None:
                        best = _strip(cand)
                        improved = True
                        break
    return best, runs[0], True
