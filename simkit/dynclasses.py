"""Module-level home of classes used in generated values and generated services, so that the serializer can
resolve `py/object` / `py/type` references by import path."""


class Pt(object):
    """A plain module-level value class (faithful domain: plain objects)."""

    def __init__(self, **kw):
        for k, v in kw.items():
            setattr(self, k, v)

    def __eq__(self, other):
        return type(other) is type(self) and other.__dict__ == self.__dict__

    def __ne__(self, other):
        return not self == other

    __hash__ = None

    def __repr__(self):
        return 'Pt(%s)' % ', '.join('%s=%r' % kv for kv in sorted(self.__dict__.items()))


class Box(Pt):
    def __repr__(self):
        return 'Box(%s)' % ', '.join('%s=%r' % kv for kv in sorted(self.__dict__.items()))


class Shy(Pt):
    """A value class that declares itself not worth copying (`copy.copy` / `copy.deepcopy` hand back the very object),
    as classes holding caches or interned state do.  The serializer round trip does not consult these hooks."""

    def __copy__(self):
        return self

    def __deepcopy__(self, memo):
        return self

    def __repr__(self):
        return 'Shy(%s)' % ', '.join('%s=%r' % kv for kv in sorted(self.__dict__.items()))


class ErrA(Exception):
    """Stateless module-level exception classes: compared by type only (C01)."""


class ErrB(Exception):
    pass


class ErrAB(ErrA):
    pass


class ErrPayload(Exception):
    """An exception that carries a mutable payload (compared by type and payload)."""

    def __init__(self, payload=None):
        Exception.__init__(self)
        self.payload = payload


class ErrOpaque(Exception):
    """An exception that carries something no serializer can copy (a lock, a connection)."""

    def __init__(self):
        Exception.__init__(self)
        import threading
        self.lock = threading.Lock()
        self.handle = _OpaqueHandle()


class _OpaqueHandle(object):
    def __getstate__(self):
        raise RuntimeError('injected: this handle cannot be serialized')


class Interrupt(BaseException):
    """Interrupt-style termination (KeyboardInterrupt / SystemExit stand-in)."""


class Unserializable(object):
    """encode() raises for this object (used for `key cannot be built` / `value not serializable` faults)."""

    def __init__(self, tag=0):
        self.tag = tag

    def __getstate__(self):
        raise RuntimeError('injected: cannot serialize')


class CopyFails(object):
    """Encodes fine, but the decode half of a copy raises (used for `copy fails`)."""

    def __init__(self, tag=0):
        self.tag = tag

    def __setstate__(self, state):
        raise RuntimeError('injected: cannot restore')

    def __getstate__(self):
        return {'tag': self.tag}


EXC_CLASSES = [ErrA, ErrB, ErrAB, ValueError, KeyError]


def register(name, cls):
    """Register a generated class under this module so `module.name` resolves for the serializer."""
    cls.__module__ = __name__
    cls.__qualname__ = name
    globals()[name] = cls
    return cls
