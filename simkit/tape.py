"""The decision tape: the only source of choice in a simulated run (DESIGN.md 2.1).

tape.draw(n) returns an int in [0, n).  While the replay prefix lasts the value comes from the prefix, afterwards
from random.Random(seed) (explore mode) or 0 (replay / shrink mode).  The PRNG is advanced on *every* draw, also on
prefix draws, so that Tape(seed, prefix=[k]) generates exactly the workload of Tape(seed) except for the first
decision - this is what systematic fault / pre-emption placement (DESIGN.md 2.4) relies on.
0 always means the simplest choice (no fault, no pre-emption, smallest size, first alternative).
"""
import hashlib
import random


def hash64(*parts):
    h = hashlib.sha256(repr(parts).encode('utf-8')).digest()
    return int.from_bytes(h[:8], 'big')


class TapeExhausted(Exception):
    """Raised when a run draws more decisions than its cap allows (harness error, never a pass)."""


class Tape(object):
    def __init__(self, seed=0, prefix=None, explore=True, cap=200000):
        self.seed = seed
        self.prefix = list(prefix or [])
        self.explore = explore
        self.rng = random.Random(seed)
        self.used = []
        self.cap = cap

    def draw(self, n, label=None):
        if n <= 1:
            return 0
        pos = len(self.used)
        if pos >= self.cap:
            raise TapeExhausted('decision cap %d reached' % self.cap)
        r = self.rng.randrange(n)
        if pos < len(self.prefix):
            v = self.prefix[pos]
            if v >= n:
                v = v % n
        elif self.explore:
            v = r
        else:
            v = 0
        self.used.append(v)
        return v

    def coin(self, p, label=None):
        """True with probability p; tape value 0 is always False."""
        k = int(round(p * 1000))
        if k <= 0:
            self.draw(1000)  # keep tape alignment independent of p
            return False
        return self.draw(1000) >= 1000 - k

    def choice(self, seq, label=None):
        return seq[self.draw(len(seq), label)]

    def weighted(self, pairs, label=None):
        """pairs: [(weight, item), ...]; first item is the simplest."""
        total = sum(w for w, _ in pairs)
        k = self.draw(total, label)
        for w, item in pairs:
            if k < w:
                return item
            k -= w
        return pairs[-1][1]

    def randint(self, lo, hi, label=None):
        return lo + self.draw(hi - lo + 1, label)

    def shuffle(self, items):
        items = list(items)
        out = []
        while items:
            out.append(items.pop(self.draw(len(items))))
        return out

    def fork_seed(self):
        """A derived seed for code that wants its own random.Random (e.g. global random.seed)."""
        return self.draw(1 << 30)


def replay_tape(values):
    return Tape(seed=0, prefix=values, explore=False)
