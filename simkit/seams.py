"""Seams: rebinding of module-level names in /repo/playback that reach nondeterminism (DESIGN.md section 1)."""
import contextlib
import datetime as _dt
import importlib
import random


_MISSING = object()


class FakeUUID(object):
    def __init__(self, n, scrambled=False):
        if scrambled:
            # like uuid1().hex, whose leading field is the low 32 bits of the timestamp: the textual order of ids says
            # nothing about the order in which they were made
            import hashlib
            self.hex = hashlib.sha256(('uuid-%d' % n).encode()).hexdigest()[:24] + '%08x' % n
        else:
            self.hex = '%032x' % n

    def __str__(self):
        return self.hex


class UUIDCounter(object):
    """Stands in for the `uuid` module: uuid1()/uuid4() return a per-run counter."""

    def __init__(self, start=1, scrambled=False):
        self.n = start - 1
        self.scrambled = scrambled

    def uuid1(self, *a, **k):
        self.n += 1
        return FakeUUID(self.n, self.scrambled)

    uuid4 = uuid1


UUID_MODULES = [
    'playback.recording',
    'playback.tape_cassettes.in_memory.in_memory_tape_cassette',
    'playback.tape_cassettes.file_based.file_based_tape_cassette',
    'playback.tape_cassettes.s3.s3_tape_cassette',
]


@contextlib.contextmanager
def rebind(pairs):
    """pairs: [(module name, attribute, new value)]; restores on exit."""
    saved = []
    try:
        for modname, attr, val in pairs:
            mod = importlib.import_module(modname)
            saved.append((mod, attr, mod.__dict__.get(attr, _MISSING)))
            setattr(mod, attr, val)
        yield
    finally:
        for mod, attr, old in reversed(saved):
            if old is _MISSING:
                if attr in mod.__dict__:
                    delattr(mod, attr)      # the name was a builtin (e.g. open): fall back to it again
            else:
                setattr(mod, attr, old)


class ThreadingProxy(object):
    """`threading` as seen by playback.tape_recorder: Lock() gives a lock the simulator can schedule around,
    everything else (threading.local in particular) is the real module."""

    def Lock(self):
        from .sim import HybridLock
        return HybridLock()

    def __getattr__(self, name):
        import threading
        return getattr(threading, name)


class TapeRandom(object):
    """Stands in for the global `random` module functions the repository uses (choice, shuffle)."""

    def __init__(self, tape):
        self.tape = tape

    def choice(self, seq):
        return seq[self.tape.draw(len(seq))]

    def shuffle(self, lst):
        out = self.tape.shuffle(lst)
        lst[:] = out

    def random(self):
        # a use of the process-global RNG where a seeded instance is documented: decided by the tape, so that
        # oracles with a scripted instance RNG see that their script was not consulted
        return self.tape.draw(1000) / 1000.0


class VClock(object):
    """Virtual wall clock.  `now` is seconds since the Unix epoch (UTC); every reading advances it by `tick`
    so that durations are positive and strictly monotonic; `advance` models elapsed time."""

    def __init__(self, start=1577880000.0, tick=0.001):     # 2020-01-01 12:00:00 UTC
        self.now = start
        self.tick = tick
        self.reads = 0
        self.local_offset = 0.0      # seconds east of UTC of the host's local time, as seen by the recorder module only

    def time(self):
        self.reads += 1
        self.now += self.tick
        return self.now

    def advance(self, seconds):
        self.now += seconds

    def set(self, dt):
        self.now = (dt - _dt.datetime(1970, 1, 1)).total_seconds()

    def utc(self):
        return _dt.datetime(1970, 1, 1) + _dt.timedelta(seconds=self.now)

    def datetime_class(self, local=False):
        clock = self

        class VDateTime(_dt.datetime):
            @classmethod
            def utcnow(cls):
                return clock.utc()

            @classmethod
            def today(cls):
                # the process clock is UTC for the S3 cassette (assumption stated by C16); the recorder module may sit on a
                # host whose local time is not UTC
                return clock.utc() + _dt.timedelta(seconds=clock.local_offset if local else 0.0)

            @classmethod
            def now(cls, tz=None):
                if tz is not None:
                    return _dt.datetime.fromtimestamp(clock.now, tz)
                return clock.utc() + _dt.timedelta(seconds=clock.local_offset if local else 0.0)
        return VDateTime


def clock_pairs(clock):
    dtc = clock.datetime_class()
    return [
        ('playback.tape_recorder', 'time', clock.time),
        ('playback.tape_recorder', 'datetime', clock.datetime_class(local=True)),
        ('playback.utils.timing_utils', 'time', clock.time),
        ('playback.tape_cassettes.s3.s3_tape_cassette', 'datetime', dtc),
    ]


@contextlib.contextmanager
def deterministic(tape=None, extra=(), clock=None, scrambled_ids=False):
    """Deterministic recording ids, wall clock and global `random` for the duration of one run."""
    counter = UUIDCounter(scrambled=scrambled_ids)
    clock = clock or VClock()
    # process-global generator state must not leak from one run into the next
    from . import values as _values
    _values.FLAVOUR['objects'], _values.FLAVOUR['sharing'] = True, False
    pairs = [(m, 'uuid', counter) for m in UUID_MODULES] + clock_pairs(clock) + list(extra)
    pairs.append(('playback.tape_recorder', 'threading', ThreadingProxy()))
    state = random.getstate()
    random.seed(12345)
    if tape is not None:
        # the repository's uses of the process-global RNG (random listing order) are decided by the tape, lazily,
        # so that no decision is drawn unless the code under test actually asks for one
        pairs += [('playback.tape_cassettes.in_memory.in_memory_tape_cassette', 'shuffle', TapeRandom(tape).shuffle),
                  ('playback.tape_cassettes.s3.s3_basic_facade', 'shuffle', TapeRandom(tape).shuffle),
                  ('playback.tape_cassettes.s3.s3_tape_cassette', 'random', TapeRandom(tape))]
    try:
        with rebind(pairs):
            yield clock
    finally:
        random.setstate(state)


class _Sink(__import__('logging').Handler):
    """Formats every record (so lazily built log arguments are really evaluated) and drops it."""

    def emit(self, record):
        try:
            self.format(record)
        except Exception:
            pass


@contextlib.contextmanager
def debug_logging(enabled=True, names=('playback',)):
    """The service runs with DEBUG logging switched on for the library (a configuration like any other: nothing the
    library logs may change what it does)."""
    import logging
    if not enabled:
        yield
        return
    saved = []
    sink = _Sink()
    disabled = logging.root.manager.disable
    logging.disable(logging.NOTSET)           # the runner silences all logging for speed
    null = logging.NullHandler()
    logging.root.addHandler(null)             # nothing may reach the last-resort stderr handler
    for n in names:
        lg = logging.getLogger(n)
        saved.append((lg, lg.level, lg.propagate))
        lg.setLevel(logging.DEBUG)
        lg.addHandler(sink)
        lg.propagate = False
    try:
        yield
    finally:
        for lg, level, prop in saved:
            lg.removeHandler(sink)
            lg.setLevel(level)
            lg.propagate = prop
        logging.root.removeHandler(null)
        logging.disable(disabled)
