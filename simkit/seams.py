"""Seams: rebinding of module-level names in /repo/playback that reach nondeterminism (DESIGN.md section 1)."""
import contextlib
import importlib
import random


class FakeUUID(object):
    def __init__(self, n):
        self.hex = '%032x' % n

    def __str__(self):
        return self.hex


class UUIDCounter(object):
    """Stands in for the `uuid` module: uuid1()/uuid4() return a per-run counter."""

    def __init__(self, start=1):
        self.n = start - 1

    def uuid1(self, *a, **k):
        self.n += 1
        return FakeUUID(self.n)

    uuid4 = uuid1


UUID_MODULES = [
    'playback.recording',
    'playback.tape_cassettes.in_memory.in_memory_tape_cassette',
    'playback.tape_cassettes.file_based.file_based_tape_cassette',
    'playback.tape_cassettes.s3.s3_tape_cassette',
]


@contextlib.contextmanager
def rebind(pairs):
    """pairs: [(module name, attribute, new value)]; restores on exit."""
    saved = []
    try:
        for modname, attr, val in pairs:
            mod = importlib.import_module(modname)
            saved.append((mod, attr, getattr(mod, attr)))
            setattr(mod, attr, val)
        yield
    finally:
        for mod, attr, old in reversed(saved):
            setattr(mod, attr, old)


@contextlib.contextmanager
def deterministic(tape=None, extra=()):
    """Deterministic recording ids and global `random` for the duration of one run."""
    counter = UUIDCounter()
    pairs = [(m, 'uuid', counter) for m in UUID_MODULES] + list(extra)
    state = random.getstate()
    random.seed(12345 if tape is None else tape.fork_seed())
    try:
        with rebind(pairs):
            yield counter
    finally:
        random.setstate(state)
