"""Importable spy recording for wrapped cassettes.  State lives in a side table keyed by recording id: the
in-memory and file cassettes serialise the whole recording object, so nothing may hang on the recording."""
from playback.recordings.memory.memory_recording import MemoryRecording

HOOK = {'fn': None}


class SpyRecording(MemoryRecording):
    def _set_data(self, key, value):
        if HOOK['fn'] is not None:
            HOOK['fn']('set_data', self.id, key, value)
        super(SpyRecording, self)._set_data(key, value)

    def _add_metadata(self, metadata):
        if HOOK['fn'] is not None:
            HOOK['fn']('add_metadata', self.id, None, metadata)
        super(SpyRecording, self)._add_metadata(metadata)
