"""Simulated multiprocessing for playback.studio.equalizer (DESIGN.md 2.2 'Simulated processes').

`FakeMP` stands in for the module name `mp` of equalizer.py: Queue, Event, Process and queues.Empty.  A process is
one scheduler task running on a *forked* shallow copy of the Equalizer (ints become private to the child, queues and
the event stay shared; harness-owned callables are asked for a child copy through `__sim_fork__`).  Queue.put never
blocks and hands the pickled item to the producer's outbox, delivered after a tape-chosen delay (FIFO per producer);
Queue.get takes the queue's reader lock for the whole poll, as multiprocessing.queues.Queue.get does, so a process
killed inside get leaves the reader lock held for ever.  kill = simulated SIGKILL (no flush of the outbox); normal
exit (including SystemExit) flushes it.
"""
import copy
import pickle
import queue as _queue

from .sim import SimEvent, SimKilled, DONE, DEAD, RUNNABLE, BLOCKED, NEW


class _Queues(object):
    Empty = _queue.Empty
    Full = _queue.Full


class FakeMP(object):
    queues = _Queues

    def __init__(self, sim, run, tape, max_queue_delay=0.0, slow_start=0.0):
        self.sim = sim
        self.run = run
        self.tape = tape
        self.max_queue_delay = max_queue_delay
        self.slow_start = slow_start
        self.exit_delay = 0.0
        self.processes = []
        self.queues_made = []
        self._pid = 1000
        self._names = 0

    # -- module surface
    def Queue(self, maxsize=0):
        self._names += 1
        q = FakeQueue(self, 'q%d' % self._names)
        self.queues_made.append(q)
        return q

    def Event(self):
        self._names += 1
        return FakeEvent(self.sim, 'mpevent%d' % self._names)

    def Process(self, group=None, target=None, name=None, args=(), kwargs=None):
        return FakeProcess(self, target, name, args, kwargs or {})

    def active_children(self):
        """multiprocessing.active_children(): the live processes started by the calling process."""
        me = self.current_proc()
        return [p for p in self.processes if p.alive_quiet() and p.parent is me]

    # -- helpers
    def current_proc(self):
        t = self.sim.current
        return t.proc if t is not None else None

    def by_pid(self, pid):
        for p in self.processes:
            if p.pid == pid:
                return p
        return None

    def alive(self):
        return [p for p in self.processes if p.alive_quiet()]

    def os_proxy(self, real_os):
        return OsProxy(self, real_os)

    def sigint_group(self, sigproxy):
        """SIGINT delivered to every process of the group (Ctrl-C in the terminal): a process with the default disposition
        gets KeyboardInterrupt at its next scheduling point, one that ignores the signal does not notice."""
        import signal as real_signal
        for p in self.processes:
            if not p.alive_quiet():
                continue
            handler = p.__dict__.get('signal_handlers', {}).get(real_signal.SIGINT, real_signal.SIG_DFL)
            if handler is real_signal.SIG_IGN:
                self.sim.run.probe('worker_ignores_sigint')
                continue
            self.sim.interrupt(p.task, KeyboardInterrupt())

    def signal_proxy(self):
        import signal as real_signal
        return SignalProxy(self, real_signal)


class FakeEvent(SimEvent):
    """multiprocessing.Event: shared between parent and children.  As in multiprocessing.synchronize.Condition, a
    process inside wait() is counted as a sleeper until it acknowledges its wake-up; set() waits for that
    acknowledgement of every sleeper it wakes - a sleeper that was killed never gives it."""

    def __init__(self, sim, name='event'):
        SimEvent.__init__(self, sim, name)
        self.sleeping = []

    def wait(self, timeout=None):
        sim = self.sim
        sim.prim_point('wait')
        if self.flag:
            return True
        cur = sim._me()
        self.sleeping.append(cur)
        self.waiters.append(cur)
        sim.block(('event', self.name), timeout)      # (a SIGKILL here leaves the sleeper registered for ever)
        self.sleeping.remove(cur)
        if cur in self.waiters:
            self.waiters.remove(cur)
        return self.flag

    def set(self):
        SimEvent.set(self)
        dead = [t for t in self.sleeping if t.killed or t.state in (DONE, DEAD)]
        if dead:
            self.sim.run.probe('event_set_waits_for_a_dead_sleeper')
            self.sim.block(('event-ack', self.name), None)


class FakeQueue(object):
    def __init__(self, mp, name):
        self.mp = mp
        self.sim = mp.sim
        self.name = name
        self.items = []            # [deliver_at, seq, producer proc or None, bytes]
        self.seq = 0
        self.rlock_owner = None    # task holding the reader lock
        self.rlock_waiters = []
        self.waiters = []
        self.closed_by = set()
        self.last_deliver = {}

    def __getstate__(self):
        raise TypeError('queue objects should only be shared between processes through inheritance')

    def __copy__(self):
        return self            # fork: the same pipe

    def __deepcopy__(self, memo):
        return self

    def put(self, item, block=True, timeout=None):
        sim = self.sim
        sim.prim_point('queue.put')
        try:
            data = pickle.dumps(item, protocol=pickle.HIGHEST_PROTOCOL)
        except Exception as ex:
            # the real feeder thread prints the error and drops the item
            sim.run.probe('queue_item_not_picklable')
            sim.run.ev('qdrop', self.name, type(ex).__name__)
            return
        proc = self.mp.current_proc()
        delay = 0.0
        if self.mp.max_queue_delay > 0:
            delay = self.mp.tape.draw(5) * self.mp.max_queue_delay / 4.0
            if delay:
                sim.run.fault('queue_delay')
        at = max(sim.now + delay, self.last_deliver.get(id(proc), 0.0))   # FIFO per producer
        self.last_deliver[id(proc)] = at
        self.seq += 1
        self.items.append([at, self.seq, proc, data])
        sim.run.ev('qput', self.name, proc.pid if proc else 0, round(at, 6))
        for w in list(self.waiters):
            sim.wake(w, 'queue')

    def _available(self):
        now = self.sim.now
        best = None
        for it in self.items:
            if it[0] <= now and (best is None or (it[0], it[1]) < (best[0], best[1])):
                best = it
        return best

    def _next_delivery(self):
        ts = [it[0] for it in self.items if it[0] > self.sim.now]
        return min(ts) if ts else None

    def _acquire_rlock(self, cur, deadline):
        sim = self.sim
        while self.rlock_owner is not None:
            remaining = None if deadline is None else deadline - sim.now
            if remaining is not None and remaining <= 0:
                return False
            if self.rlock_owner.state in (DONE, DEAD) and not self.rlock_owner.killed:
                # the holder exited normally: a semaphore released on exit would be unusual, but a normal exit
                # never happens while inside get()
                self.rlock_owner = None
                break
            if self.rlock_owner.killed:
                sim.run.probe('reader_lock_orphaned')
            self.rlock_waiters.append(cur)
            sim.block(('rlock', self.name), remaining)
            if cur in self.rlock_waiters:
                self.rlock_waiters.remove(cur)
        self.rlock_owner = cur
        return True

    def _release_rlock(self):
        self.rlock_owner = None
        for w in list(self.rlock_waiters):
            self.sim.wake(w, 'rlock')

    def get(self, block=True, timeout=None):
        sim = self.sim
        sim.prim_point('queue.get')
        cur = sim._me()
        deadline = None if (timeout is None or not block) else sim.now + timeout
        if not block:
            deadline = sim.now
        if not self._acquire_rlock(cur, deadline):
            raise _queue.Empty()
        try:
            while True:
                it = self._available()
                if it is not None:
                    self.items.remove(it)
                    sim.run.ev('qget', self.name, cur.proc.pid if cur.proc else 0, it[1])
                    return pickle.loads(it[3])
                nxt = self._next_delivery()
                if deadline is not None and sim.now >= deadline:
                    raise _queue.Empty()
                until = deadline
                if nxt is not None and (until is None or nxt < until):
                    until = nxt
                self.waiters.append(cur)
                try:
                    sim.block(('queue', self.name), None if until is None else max(0.0, until - sim.now))
                finally:
                    if cur in self.waiters:
                        self.waiters.remove(cur)
        finally:
            if not cur.killed:
                self._release_rlock()

    def get_nowait(self):
        return self.get(False)

    def empty(self):
        return self._available() is None

    def close(self):
        self.closed_by.add(id(self.mp.current_proc()))

    def join_thread(self):
        pass

    def cancel_join_thread(self):
        pass

    # -- process lifecycle hooks
    def producer_killed(self, proc):
        """SIGKILL: whatever the feeder thread had not written yet is lost."""
        now = self.sim.now
        before = len(self.items)
        self.items = [it for it in self.items if not (it[2] is proc and it[0] > now)]
        if len(self.items) != before:
            self.sim.run.probe('undelivered_items_lost_by_kill')

    def producer_exited(self, proc):
        """Normal exit joins the feeder thread: everything is delivered."""
        now = self.sim.now
        for it in self.items:
            if it[2] is proc and it[0] > now:
                it[0] = now
        for w in list(self.waiters):
            self.sim.wake(w, 'queue')


class FakeProcess(object):
    def __init__(self, mp, target, name, args, kwargs):
        self.mp = mp
        self.sim = mp.sim
        self._target = target
        self._args = args
        self._kwargs = kwargs
        self.name = name or 'process'
        self.pid = None
        self.task = None
        self.exitcode = None
        self.tasks_handled = 0
        self.killed_by = None
        self.ignores_sigterm = False
        self.kill_failed = False
        self.exit_hangs = False      # the process cannot finish its orderly exit (a non-daemon thread left behind by its work)
        self.daemon = False
        self.parent = mp.current_proc()

    def start(self):
        sim = self.sim
        sim.prim_point('process.start')
        mp = self.mp
        parent = mp.current_proc()
        if parent is not None and parent.daemon:
            raise AssertionError('daemonic processes are not allowed to have children')
        mp._pid += 1
        self.pid = mp._pid
        mp.processes.append(self)
        target = self._target
        owner = getattr(target, '__self__', None)
        if owner is not None:
            child_owner = fork_copy(owner)
            fn = target.__func__
            call = lambda: fn(child_owner, *self._args, **self._kwargs)     # noqa
        else:
            call = lambda: target(*self._args, **self._kwargs)     # noqa
        delay = 0.0
        if mp.slow_start > 0 and self.name != 'helper' and mp.tape.draw(3) == 2:
            delay = mp.slow_start
            sim.run.fault('worker_slow_start')

        def body():
            if delay:
                sim.sleep(delay)
            try:
                call()
            finally:
                # an orderly exit may take a while (non-daemon threads, atexit handlers); a SIGKILL does not wait
                if mp.exit_delay and not self.task.killed and self.name != 'helper':
                    sim.sleep(mp.exit_delay)
                if self.exit_hangs and not self.task.killed:
                    sim.run.probe('worker_process_cannot_exit')
                    sim.sleep(1e9)          # interpreter shutdown waits for the non-daemon thread for ever; only a kill ends it
        self.task = sim.spawn(body, name='%s[%d]' % (self.name, self.pid), proc=self, start=False)
        self.task.on_exit = self._on_exit
        sim.start_task(self.task)
        sim.run.ev('fork', self.pid)

    def _on_exit(self, task):
        # normal exit (return or SystemExit): flush outboxes
        ex = task.exc
        self.exitcode = 0 if ex is None else (ex.code if isinstance(ex, SystemExit) and isinstance(ex.code, int) else 1)
        for q in self.mp.queues_made:
            q.producer_exited(self)

    def alive_quiet(self):
        return self.task is not None and self.task.state not in (DONE, DEAD)

    def is_alive(self):
        self.sim.prim_point('process.is_alive')
        return self.alive_quiet()

    def join(self, timeout=None):
        if self.task is None:
            raise AssertionError('can only join a started process')
        self.sim.join(self.task, timeout)

    def terminate(self):
        # SIGTERM: a process that handles or ignores it (graceful-shutdown handler installed by the service) survives
        self.sim.prim_point('process.terminate')
        if self.ignores_sigterm:
            self.sim.run.probe('sigterm_ignored')
            return
        self.kill()

    def kill(self):
        sim = self.sim
        if not self.alive_quiet():
            return
        self.exitcode = -9
        if self.task is not None and isinstance(self.task.blocked_on, tuple) and self.task.blocked_on[0] in ('queue', 'rlock'):
            sim.run.probe('killed_inside_queue_get')      # the reader lock of that queue stays held for ever
        for q in self.mp.queues_made:
            q.producer_killed(self)
        sim.run.ev('sigkill', self.pid)
        sim.kill(self.task)


def fork_copy(owner):
    """What the child sees after fork(): its own copy of the owner object; shared pipes / events stay shared;
    callables owned by the harness provide their child copy through __sim_fork__."""
    child = copy.copy(owner)
    for name, val in list(vars(child).items()):
        forker = getattr(val, '__sim_fork__', None)
        if forker is not None:
            setattr(child, name, forker())
    return child


class SignalProxy(object):
    """`signal` as seen by equalizer.py: handlers installed by a simulated process are recorded on that process (the
    real signal.signal only works in the main thread of the interpreter); everything else is the real module."""

    def __init__(self, mp, real_signal):
        self._mp = mp
        self._signal = real_signal
        self.parent_handlers = {}

    def signal(self, signum, handler):
        proc = self._mp.current_proc()
        table = self.parent_handlers if proc is None else proc.__dict__.setdefault('signal_handlers', {})
        old = table.get(signum, self._signal.SIG_DFL)
        table[signum] = handler
        if signum == getattr(self._signal, 'SIGTERM', None) and proc is not None and handler is not self._signal.SIG_DFL:
            proc.ignores_sigterm = True
        return old

    def getsignal(self, signum):
        proc = self._mp.current_proc()
        table = self.parent_handlers if proc is None else proc.__dict__.get('signal_handlers', {})
        return table.get(signum, self._signal.SIG_DFL)

    def __getattr__(self, name):
        return getattr(self._signal, name)


class OsProxy(object):
    """`os` as seen by equalizer.py: kill() acts on simulated processes, the rest is the real module."""

    def __init__(self, mp, real_os):
        self._mp = mp
        self._os = real_os
        self.kill_raises = False

    def kill(self, pid, sig):
        sim = self._mp.sim
        sim.prim_point('os.kill')
        p = self._mp.by_pid(pid)
        if p is None:
            raise ProcessLookupError(3, 'No such process')
        if self.kill_raises:
            sim.run.fault('kill_raises_oserror')
            p.kill_failed = True
            raise PermissionError(1, 'Operation not permitted')
        p.killed_by = 'os.kill'
        p.kill()

    def getpid(self):
        proc = self._mp.current_proc()
        return proc.pid if proc is not None else 999

    def __getattr__(self, name):
        return getattr(self._os, name)
