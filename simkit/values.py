"""Generated values in the serializer's faithful domain (DESIGN.md 3.1) and their structural canonical form."""
from jsonpickle import encode, decode

from . import dynclasses as D

STRS = ['', 'a', 'b', 'x y', 'q"uote', "it's", 'back\\slash', u'unicöde ☃', 'a/b_c.d#1', '{"py/object": 1}',
        'args=[1]', 'zz', 'y', 'x', '0', '1', 'True', 'None', 'line\nbreak', ' lead', 'a' * 40]
INTS = [0, 1, -1, 2, 3, 7, 10, 255, -40, 2 ** 31, 2 ** 70, -2 ** 65]
FLOATS = [0.5, -1.25, 1e-9, 3.0e20, float('inf'), 2.0]
BYTES = [b'', b'a', b'\x00\xff', b'bytes with \n', bytes(range(0, 256, 17))]
KEYS = ['k', 'a', 'b', 'key two', 'z', 'n', 'id', u'ü']


def gen_scalar(tape):
    kind = tape.draw(7)
    if kind == 0:
        return tape.choice(INTS)
    if kind == 1:
        return tape.choice(STRS)
    if kind == 2:
        return None
    if kind == 3:
        return bool(tape.draw(2))
    if kind == 4:
        return tape.choice(FLOATS)
    if kind == 5:
        return tape.choice(BYTES)
    return tape.choice(INTS) * 3 + tape.draw(3)


def gen_hashable(tape):
    kind = tape.draw(4)
    if kind == 0:
        return tape.choice(INTS)
    if kind == 1:
        return tape.choice(STRS)
    if kind == 2:
        return tape.choice(INTS) + 100
    return tape.choice(STRS) + 's'


# The pinned jsonpickle 0.9.3 on Python >= 3.11 mis-numbers py/id references that follow a plain object whose
# state holds containers (object.__getstate__ exists since 3.11 and sends it down the py/state path).  Plain objects
# and shared references are therefore never mixed inside one run: each run picks one flavour.
FLAVOUR = {'objects': True, 'sharing': False}


def set_flavour(tape):
    f = tape.draw(3)
    FLAVOUR['objects'] = f != 1
    FLAVOUR['sharing'] = f == 1
    return 'sharing' if f == 1 else 'objects'


def gen_value(tape, depth=2, width=3):
    """A value of the faithful domain; tape value 0 gives the simplest (a small int)."""
    if depth <= 0:
        return gen_scalar(tape)
    kind = tape.draw(9)
    if kind == 7 and not FLAVOUR['objects']:
        kind = 5
    if kind == 8 and not FLAVOUR['sharing']:
        kind = 3
    if kind <= 2:
        return gen_scalar(tape)
    n = tape.draw(width + 1)
    if kind == 3:
        return [gen_value(tape, depth - 1, width) for _ in range(n)]
    if kind == 4:
        return tuple(gen_value(tape, depth - 1, width) for _ in range(n))
    if kind == 5:
        keys = tape.shuffle(KEYS)[:n]
        return dict((k, gen_value(tape, depth - 1, width)) for k in keys)
    if kind == 6:
        if tape.draw(2):
            return set(tape.choice(INTS) for _ in range(n))   # ints hash to themselves: order is seed independent
        return set(gen_hashable(tape) for _ in range(n))
    if kind == 7:
        cls = D.Pt if tape.draw(2) == 0 else D.Box
        keys = tape.shuffle(['x', 'y', 'name', 'items'])[:max(1, n)]
        return cls(**dict((k, gen_value(tape, depth - 1, width)) for k in keys))
    # shared sub-object inside a container
    shared = gen_value(tape, depth - 1, width)
    return [shared, {'again': shared}]


def doc_faithful(doc):
    """Whole-document check: does the pinned serializer round-trip this (recording sized) document?"""
    try:
        r = decode(encode(doc, unpicklable=True))
    except Exception:
        return False
    try:
        return canon(r) == canon(doc)
    except RecursionError:
        return False


def faithful(v):
    """True iff the pinned serializer round-trips v (the properties are conditional on this domain)."""
    try:
        r = decode(encode(v, unpicklable=True))
    except Exception:
        return False
    return canon(r) == canon(v)


def gen_faithful(tape, run=None, depth=2, width=3):
    for _ in range(6):
        v = gen_value(tape, depth, width)
        if faithful(v):
            return v
        if run is not None:
            run.probe('value_discarded_not_faithful')
    return tape.draw(5)


def canon(v):
    """Structural canonical form: equal iff the values are structurally equal including types."""
    if v is None or isinstance(v, bool):
        return ('c', repr(v))
    if isinstance(v, int):
        return ('i', v)
    if isinstance(v, float):
        return ('f', repr(v))
    if isinstance(v, str):
        return ('s', v)
    if isinstance(v, bytes):
        return ('b', v)
    if isinstance(v, list):
        return ('l', tuple(canon(x) for x in v))
    if isinstance(v, tuple):
        return ('t', tuple(canon(x) for x in v))
    if isinstance(v, (set, frozenset)):
        return ('S', tuple(sorted((canon(x) for x in v), key=repr)))
    if isinstance(v, dict):
        return ('d', tuple(sorted(((canon(k), canon(x)) for k, x in v.items()), key=repr)))
    if isinstance(v, type):
        return ('T', v.__module__, v.__name__)
    if isinstance(v, BaseException):
        return ('E', type(v).__name__)
    if hasattr(v, '__dict__'):
        return ('o', type(v).__name__, canon(dict(v.__dict__)))
    return ('r', repr(v))


def srepr(v):
    """repr() that does not depend on the hash seed (sets are printed in canonical order)."""
    if isinstance(v, (set, frozenset)):
        return '{' + ', '.join(sorted((srepr(x) for x in v))) + '}' if v else 'set()'
    if isinstance(v, list):
        return '[' + ', '.join(srepr(x) for x in v) + ']'
    if isinstance(v, tuple):
        return '(' + ', '.join(srepr(x) for x in v) + (',)' if len(v) == 1 else ')')
    if isinstance(v, dict):
        return '{' + ', '.join('%s: %s' % (srepr(k), srepr(x)) for k, x in v.items()) + '}'
    if isinstance(v, (D.Pt, D.Box)):
        return '%s(%s)' % (type(v).__name__, ', '.join('%s=%s' % (k, srepr(x)) for k, x in sorted(v.__dict__.items())))
    return repr(v)


def short(v, limit=80):
    r = srepr(v)
    return r if len(r) <= limit else r[:limit - 3] + '...'


def reorder(tape, v):
    """A structurally equal value written differently: dict insertion order and attribute order shuffled,
    sets rebuilt in another insertion order."""
    if isinstance(v, dict):
        items = tape.shuffle(list(v.items()))
        return dict((k, reorder(tape, x)) for k, x in items)
    if isinstance(v, list):
        return [reorder(tape, x) for x in v]
    if isinstance(v, tuple):
        return tuple(reorder(tape, x) for x in v)
    if isinstance(v, set):
        return set(tape.shuffle(sorted(v, key=repr)))
    if isinstance(v, (D.Pt, D.Box)):
        items = tape.shuffle(sorted(v.__dict__.items()))
        return type(v)(**dict((k, reorder(tape, x)) for k, x in items))
    return v


def mutate_in_place(tape, v):
    """Apply a random in-place mutation somewhere inside v; returns True if something was mutated."""
    if isinstance(v, list):
        if v and tape.draw(2):
            if mutate_in_place(tape, v[tape.draw(len(v))]):
                return True
        op = tape.draw(3)
        if op == 0 or not v:
            v.append('MUTATED')
        elif op == 1:
            v[tape.draw(len(v))] = 'MUTATED'
        else:
            del v[tape.draw(len(v))]
        return True
    if isinstance(v, dict):
        if v and tape.draw(2):
            k = sorted(v.keys(), key=repr)[tape.draw(len(v))]
            if mutate_in_place(tape, v[k]):
                return True
        op = tape.draw(3)
        if op == 0 or not v:
            v['MUTATED'] = 1
        elif op == 1:
            k = sorted(v.keys(), key=repr)[tape.draw(len(v))]
            v[k] = 'MUTATED'
        else:
            k = sorted(v.keys(), key=repr)[tape.draw(len(v))]
            del v[k]
        return True
    if isinstance(v, set):
        if v and tape.draw(2):
            v.pop()
        else:
            v.add('MUTATED')
        return True
    if isinstance(v, (D.Pt, D.Box)):
        ks = sorted(v.__dict__.keys())
        if ks and tape.draw(2):
            if mutate_in_place(tape, v.__dict__[ks[tape.draw(len(ks))]]):
                return True
        v.MUTATED = True
        return True
    if isinstance(v, tuple):
        for x in v:
            if mutate_in_place(tape, x):
                return True
        return False
    return False


def is_mutable(v):
    if isinstance(v, (list, dict, set, D.Pt, D.Box)):
        return True
    if isinstance(v, tuple):
        return any(is_mutable(x) for x in v)
    return False
