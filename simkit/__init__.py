"""simkit: deterministic simulation kit for Optibus/playback (see /verif/DESIGN.md section 2)."""
import os
import sys

REPO = os.environ.get('VERIF_REPO', '/repo')
VERIF = os.path.dirname(os.path.dirname(os.path.abspath(__file__)))


def bind_repo():
    """Make `import playback` resolve to $VERIF_REPO (default /repo) working tree and assert it did."""
    if sys.path[0] != REPO:
        sys.path.insert(0, REPO)
    import playback
    real = os.path.realpath(os.path.dirname(playback.__file__))
    want = os.path.realpath(os.path.join(REPO, 'playback'))
    if real != want:
        raise RuntimeError('playback imported from %s, expected %s' % (real, want))
    return playback
