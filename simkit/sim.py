"""Deterministic cooperative scheduler over real threads, with virtual time (DESIGN.md 2.2).

Exactly one task holds the baton at any instant; the OS scheduler never decides anything.  Scheduling points are
(a) every operation on a simulated primitive (Lock / Event / Thread / Queue / sleep / time) and (b) `sys.settrace`
line events in frames of the target files, de-duplicated per frame (a line event counts only when its line differs
from the previous line event of the same frame activation - CPython 3.12 re-emits events cold vs warm otherwise).
Every decision (pre-empt or not, who runs next, timer tie order, jitter) is drawn from the tape.
"""
import heapq
import os
import sys
import threading

from .core import HarnessError

RUNNABLE, BLOCKED, DONE, DEAD, NEW = 'runnable', 'blocked', 'done', 'dead', 'new'

try:
    threading.stack_size(512 * 1024)
except Exception:  # pragma: no cover
    pass


class SimKilled(BaseException):
    """Raised inside a task that was killed (simulated SIGKILL) or is being shut down; unwinds its real thread."""


class SimDeadlock(Exception):
    """No runnable task and no pending timer."""


class SimLimit(BaseException):
    """Step or virtual-time cap hit (BaseException so that `except Exception` in code under test cannot eat it)."""


class Task(object):
    def __init__(self, sim, tid, name):
        self.sim = sim
        self.id = tid
        self.name = name
        self.state = NEW
        self.sem = threading.Semaphore(0)
        self.thread = None
        self.killed = False
        self.wake_reason = None
        self.wait_token = 0
        self.fn = None
        self.exc = None
        self.result = None
        self.joiners = []
        self.proc = None          # owning simulated process (fake_mp), None = the parent
        self.unwound = threading.Event()
        self.blocked_on = None
        self.on_exit = None
        self.pending_exc = None   # exception to raise in this task at its next scheduling point (a signal handler ran)

    def __repr__(self):
        return '<Task %d %s %s>' % (self.id, self.name, self.state)


class Sim(object):
    def __init__(self, tape, run, preempt_p=0.0, prim_p=None, target_files=(), target_prefixes=(), jitter=0,
                 placements=None, max_steps=200000, max_time=1e7, epoch=1.6e9, trace_lines=True, timeskip=0.0, opcodes=False,
                 eager_start=False, record_points=False):
        self.tape = tape
        self.run = run
        self.preempt_p = preempt_p
        self.prim_p = preempt_p if prim_p is None else prim_p
        self.target_files = set(os.path.realpath(f) for f in target_files)
        self.target_prefixes = tuple(os.path.realpath(p) for p in target_prefixes)
        self._file_cache = {}
        self.jitter = jitter          # 0 = computation is free; n>0: each primitive op costs draw(n+1)*0.25 ms
        self.placements = dict(placements or {})   # line-point index -> choice index among other runnable tasks
        self.max_steps = max_steps
        self.max_time = max_time
        self.epoch = epoch
        self.trace_lines = trace_lines
        # a pre-empted task may stay descheduled while virtual time passes: a pre-emption may hand the processor to the
        # task whose timer is due next, if that is at most `timeskip` seconds ahead (0 = computation never takes time)
        self.timeskip = timeskip
        # opcode granularity: every bytecode instruction of a target frame is a pre-emption point (races inside one
        # source line, e.g. between reading a shared attribute twice, become reachable); roughly 10x more points
        self.opcodes = opcodes
        # a started thread runs first (deterministically, no tape decision): lets placed pre-emptions address the new
        # thread's line points without spending a placement on getting it started
        self.eager_start = eager_start
        self.point_owner = [] if record_points else None     # task id per line point
        self.marks = {}               # name -> line-point index at the time of the (first) mark
        self.now = 0.0
        self.tasks = []
        self.current = None
        self.timers = []
        self._seq = 0
        self.steps = 0
        self.line_points = 0
        self.switches = 0
        self.sched = []
        self.deadlocked = False
        self.shut = False
        self._tls = threading.local()

    # ------------------------------------------------------------------ time
    def time(self):
        self.prim_point('time')
        return self.epoch + self.now

    def time_quiet(self):
        return self.epoch + self.now

    def _charge(self):
        if self.jitter:
            self.now += self.tape.draw(self.jitter + 1) * 0.00025
            self._fire_due_timers()

    def _fire_due_timers(self):
        """Computation that costs time can carry the clock past the deadline of a blocked task: that task is
        runnable from then on (it competes at the following scheduling points)."""
        while self.timers and self.timers[0][0] <= self.now:
            e = heapq.heappop(self.timers)
            t = e[2]
            if t.wait_token == e[3] and t.state == BLOCKED:
                t.state = RUNNABLE
                t.wake_reason = 'timeout'
                t.wait_token += 1
                self.run.ev('timer-due', round(e[0], 6), t.id)

    # ------------------------------------------------------------------ tracing
    def _is_target(self, filename):
        r = self._file_cache.get(filename)
        if r is None:
            real = os.path.realpath(filename)
            r = real in self.target_files or real.startswith(self.target_prefixes) if self.target_prefixes else \
                real in self.target_files
            self._file_cache[filename] = r
        return r

    def _tracer(self, frame, event, arg):
        if event != 'call' or not self.trace_lines:
            return None
        if not self._is_target(frame.f_code.co_filename):
            return None
        last = [None]
        sim = self
        if self.opcodes:
            frame.f_trace_opcodes = True

            def local_op(frame, event, arg):
                if event == 'opcode':
                    sim.line_point(frame)
                return local_op
            return local_op

        def local(frame, event, arg):
            if event == 'line':
                ln = frame.f_lineno
                if ln != last[0]:
                    last[0] = ln
                    sim.line_point(frame)
            elif event == 'return':
                # a target frame returns (or yields) into its caller: a point in the middle of the caller's source line,
                # e.g. between a property read and the use of its value in the same expression
                last[0] = None
                sim.line_point(frame)
            return local
        return local

    def line_point(self, frame):
        cur = self.current
        if cur is None or cur.thread is not threading.current_thread():
            return  # a thread being unwound, or foreign
        if cur.killed or self.shut or getattr(self._tls, 'quiet', False):
            return
        if cur.pending_exc is not None:
            self._deliver_pending(cur)
        idx = self.line_points
        self.line_points += 1
        if self.point_owner is not None:
            self.point_owner.append(cur.id)
        self._count_step()
        others = None
        if idx in self.placements:
            others = self._preempt_candidates(cur)
            if others:
                nxt = others[self.placements[idx] % len(others)]
                name = nxt.name if not isinstance(nxt, tuple) else '%s(after %.3fs)' % (nxt[1][2].name, nxt[1][0] - self.now)
                self.run.ev('place', idx, cur.id, name, os.path.basename(frame.f_code.co_filename), frame.f_lineno)
                self.run.say('switch %s->%s before %s:%d (placed #%d)' % (
                    cur.name, name, os.path.basename(frame.f_code.co_filename), frame.f_lineno, idx))
                self._switch_to_candidate(cur, nxt)
            return
        if self.preempt_p <= 0:
            return
        others = self._preempt_candidates(cur)
        if not others:
            return
        if not self.tape.coin(self.preempt_p):
            return
        nxt = others[self.tape.draw(len(others))]
        name = nxt.name if not isinstance(nxt, tuple) else '%s(after %.3fs)' % (nxt[1][2].name, nxt[1][0] - self.now)
        self.run.ev('pre', cur.id, name, os.path.basename(frame.f_code.co_filename), frame.f_lineno)
        self.run.say('switch %s->%s before %s:%d' % (cur.name, name, os.path.basename(frame.f_code.co_filename), frame.f_lineno))
        self._switch_to_candidate(cur, nxt)

    def mark(self, name):
        """Remember where in the sequence of line points the run is (harness bookkeeping, no scheduling point)."""
        self.marks.setdefault(name, self.line_points)

    class _Quiet(object):
        def __init__(self, sim):
            self.sim = sim

        def __enter__(self):
            self.prev = getattr(self.sim._tls, 'quiet', False)
            self.sim._tls.quiet = True

        def __exit__(self, *a):
            self.sim._tls.quiet = self.prev

    def quiet(self):
        """No scheduling points inside (used by harness code that runs target-file frames for bookkeeping)."""
        return Sim._Quiet(self)

    # ------------------------------------------------------------------ core scheduling
    def _count_step(self):
        self.steps += 1
        if self.steps > self.max_steps:
            raise SimLimit('step cap %d reached' % self.max_steps)

    def _others(self, cur):
        return [t for t in self.tasks if t.state == RUNNABLE and t is not cur]

    def _preempt_candidates(self, cur):
        """Tasks a pre-emption may switch to: the runnable ones, plus (with timeskip) the sleeper whose timer is next."""
        cands = self._others(cur)
        if self.timeskip > 0:
            while self.timers and (self.timers[0][2].wait_token != self.timers[0][3] or self.timers[0][2].state != BLOCKED):
                heapq.heappop(self.timers)
            if self.timers and self.timers[0][0] <= self.now + self.timeskip:
                cands = cands + [('timer', self.timers[0])]
        return cands

    def _switch_to_candidate(self, cur, cand):
        if isinstance(cand, tuple):
            e = cand[1]
            heapq.heappop(self.timers)
            t = e[2]
            if e[0] > self.now:
                self.now = e[0]
            t.state = RUNNABLE
            t.wake_reason = 'timeout'
            t.wait_token += 1
            self.run.ev('timeskip', round(self.now, 6), t.id)
            self.run.probe('timeskip_preemption')
            cand = t
        self._transfer(cur, cand)
        return cand

    def _me(self):
        cur = self.current
        if cur is None or cur.thread is not threading.current_thread():
            # a killed thread being unwound calls a primitive
            raise SimKilled()
        if cur.killed:
            raise SimKilled()
        return cur

    def prim_point(self, kind):
        """Scheduling point at an operation on a simulated primitive."""
        cur = self._me()
        if self.shut or getattr(self._tls, 'quiet', False):
            return
        self._deliver_pending(cur)
        self._count_step()
        self._charge()
        if self.prim_p <= 0:
            return
        others = self._others(cur)
        if not others:
            return
        if not self.tape.coin(self.prim_p):
            return
        nxt = others[self.tape.draw(len(others))]
        self.run.ev('yield', cur.id, nxt.id, kind)
        self._transfer(cur, nxt)

    def _transfer(self, cur, nxt):
        self.switches += 1
        self.sched.append(nxt.id)
        self.current = nxt
        nxt.sem.release()
        cur.sem.acquire()
        if cur.killed:
            raise SimKilled()

    def _pop_timer(self):
        """Advance virtual time to the earliest valid timer; ties at one instant are ordered by the tape."""
        while self.timers and (self.timers[0][2].wait_token != self.timers[0][3] or self.timers[0][2].state != BLOCKED):
            heapq.heappop(self.timers)
        if not self.timers:
            return None
        deadline = self.timers[0][0]
        same = []
        while self.timers and self.timers[0][0] == deadline:
            e = heapq.heappop(self.timers)
            if e[2].wait_token == e[3] and e[2].state == BLOCKED:
                same.append(e)
        pick = same[self.tape.draw(len(same))] if len(same) > 1 else same[0]
        for e in same:
            if e is not pick:
                heapq.heappush(self.timers, e)
        if deadline > self.now:
            self.now = deadline
        if self.now > self.max_time:
            raise SimLimit('virtual time cap reached')
        t = pick[2]
        t.state = RUNNABLE
        t.wake_reason = 'timeout'
        t.wait_token += 1
        self.run.ev('timer', round(self.now, 6), t.id)
        return t

    def _next(self):
        """Choose the next task to run when the current one cannot continue."""
        while True:
            runnable = [t for t in self.tasks if t.state == RUNNABLE]
            if runnable:
                return runnable[self.tape.draw(len(runnable))] if len(runnable) > 1 else runnable[0]
            if self._pop_timer() is None:
                return None

    def block(self, blocked_on=None, timeout=None):
        """Block the current task until woken (returns wake reason) or until the virtual deadline ('timeout')."""
        cur = self._me()
        self._count_step()
        cur.state = BLOCKED
        cur.blocked_on = blocked_on
        cur.wait_token += 1
        cur.wake_reason = None
        if timeout is not None:
            self._seq += 1
            heapq.heappush(self.timers, (self.now + max(0.0, timeout), self._seq, cur, cur.wait_token))
        nxt = self._next()
        if nxt is None:
            self._deadlock(cur)
        elif nxt is not cur:
            self.run.ev('block', cur.id, nxt.id, str(blocked_on))
            self._transfer(cur, nxt)
        cur.blocked_on = None
        if cur.wake_reason == 'deadlock':
            raise SimDeadlock('simulated deadlock at t=%.3f' % self.now)
        self._deliver_pending(cur)
        return cur.wake_reason

    def interrupt(self, task, exc):
        """Asynchronous exception (what a Python-level signal handler raises, e.g. KeyboardInterrupt): raised in `task`
        at its next scheduling point; a blocked task is woken for it."""
        if task.state in (DONE, DEAD):
            return
        task.pending_exc = exc
        self.run.ev('interrupt', task.id, type(exc).__name__)
        self.wake(task, 'interrupt')

    def _deliver_pending(self, cur):
        if cur.pending_exc is not None and not cur.killed:
            exc, cur.pending_exc = cur.pending_exc, None
            raise exc

    def _deadlock(self, cur):
        self.deadlocked = True
        self.run.ev('deadlock', round(self.now, 6))
        main = self.tasks[0]
        if main.state == DONE:
            raise SimDeadlock('simulated deadlock (main finished)')
        main.wake_reason = 'deadlock'
        main.state = RUNNABLE
        main.wait_token += 1
        if main is not cur:
            self._transfer(cur, main)

    def wake(self, task, reason='signal'):
        if task.state == BLOCKED:
            task.state = RUNNABLE
            task.wake_reason = reason
            task.wait_token += 1

    def sleep(self, seconds):
        self.prim_point('sleep')
        if seconds > 0:
            self.block('sleep', seconds)

    # ------------------------------------------------------------------ tasks
    def spawn(self, fn, name=None, proc=None, start=True):
        tid = len(self.tasks)
        task = Task(self, tid, name or ('t%d' % tid))
        task.fn = fn
        task.proc = proc
        self.tasks.append(task)
        th = threading.Thread(target=self._task_main, args=(task,), name='sim-%d' % tid)
        th.daemon = True
        task.thread = th
        if start:
            self.start_task(task)
        return task

    def start_task(self, task):
        task.state = RUNNABLE
        task.thread.start()
        self.run.ev('spawn', task.id, task.name)
        cur = self.current
        if self.eager_start and cur is not None and cur.thread is threading.current_thread() and not cur.killed:
            self.run.ev('eager', cur.id, task.id)
            self._transfer(cur, task)

    def _task_main(self, task):
        task.sem.acquire()
        try:
            if task.killed:
                raise SimKilled()
            sys.settrace(self._tracer)
            try:
                task.result = task.fn()
            finally:
                sys.settrace(None)
        except SimKilled:
            task.exc = 'killed'
        except SystemExit as ex:
            task.exc = ex
        except BaseException as ex:  # noqa
            task.exc = ex
        finally:
            sys.settrace(None)
            if task.killed:
                task.state = DEAD
                for j in task.joiners:
                    self.wake(j, 'joined')
                task.joiners = []
                task.unwound.set()
                if self.current is task and not self.shut:
                    # the task killed itself (it still holds the baton): hand over
                    self._handover_after_exit()
            else:
                self._finish(task)

    def _finish(self, task):
        # still holding the baton
        if task.on_exit is not None:
            try:
                task.on_exit(task)
            except SimKilled:
                pass
        task.state = DONE
        self.run.ev('done', task.id, type(task.exc).__name__ if task.exc is not None else None)
        for j in task.joiners:
            self.wake(j, 'joined')
        task.joiners = []
        task.unwound.set()
        if self.shut:
            return
        self._handover_after_exit()

    def _handover_after_exit(self):
        try:
            nxt = self._next()
        except SimLimit:
            nxt = None
        if nxt is None:
            main = self.tasks[0]
            if main.state == DONE:
                return
            self.deadlocked = True
            main.wake_reason = 'deadlock'
            main.state = RUNNABLE
            main.wait_token += 1
            nxt = main
        self.switches += 1
        self.sched.append(nxt.id)
        self.current = nxt
        nxt.sem.release()

    def join(self, task, timeout=None):
        self.prim_point('join')
        if task.state in (DONE, DEAD):
            return True
        cur = self._me()
        task.joiners.append(cur)
        reason = self.block(('join', task.id), timeout)
        if reason == 'timeout':
            if cur in task.joiners:
                task.joiners.remove(cur)
            return False
        return True

    def kill(self, task):
        """Simulated SIGKILL: the task never runs again; whatever it holds stays held; its thread is unwound in
        isolation (it only touches its own copies)."""
        if task.state in (DONE, DEAD):
            return
        if task is self.current:
            task.killed = True
            raise SimKilled()
        started = task.state != NEW
        task.killed = True
        task.state = DEAD
        task.wait_token += 1
        self.run.ev('kill', task.id)
        for j in task.joiners:
            self.wake(j, 'joined')
        task.joiners = []
        if started:
            task.sem.release()
            task.unwound.wait(10)
            if not task.unwound.is_set():
                raise HarnessError('killed task did not unwind: %r' % task)

    def run_main(self, fn):
        main = Task(self, 0, 'main')
        main.thread = threading.current_thread()
        main.state = RUNNABLE
        self.tasks.append(main)
        self.current = main
        old = sys.gettrace()
        sys.settrace(self._tracer)
        prev_active = ACTIVE['sim']
        ACTIVE['sim'] = self
        try:
            return fn()
        finally:
            sys.settrace(old)
            self.shutdown()
            ACTIVE['sim'] = prev_active
            self.run.steps += self.steps
            self.run.switches += self.switches
            self.run.sim_time += self.now
            self.run.sched = tuple(self.sched)

    def drain(self, timeout=None):
        """Main task: let every other task run to completion (or until `timeout` of virtual time passes)."""
        for t in list(self.tasks[1:]):
            if t.state not in (DONE, DEAD):
                if not self.join(t, timeout):
                    return False
        return True

    def shutdown(self):
        self.shut = True
        main = self.tasks[0]
        main.state = DONE
        for t in self.tasks[1:]:
            if t.state in (DONE, DEAD):
                if t.thread is not None and t.thread.is_alive():
                    t.thread.join(5)
                continue
            started = t.state != NEW
            t.killed = True
            t.state = DEAD
            if started:
                t.sem.release()
                t.unwound.wait(10)
                if not t.unwound.is_set():
                    raise HarnessError('task did not unwind at shutdown: %r' % t)
                t.thread.join(5)


# ---------------------------------------------------------------------- simulated threading primitives
class SimLock(object):
    def __init__(self, sim, name='lock'):
        self.sim = sim
        self.name = name
        self.owner = None
        self.waiters = []

    def acquire(self, blocking=True, timeout=-1):
        sim = self.sim
        sim.prim_point('acquire')
        cur = sim._me()
        deadline = None if timeout is None or timeout < 0 else sim.now + timeout
        while self.owner is not None:
            if not blocking:
                return False
            remaining = None if deadline is None else max(0.0, deadline - sim.now)
            if remaining is not None and remaining <= 0:
                return False
            self.waiters.append(cur)
            sim.run.probe('lock_contended')
            reason = sim.block(('lock', self.name), remaining)
            if cur in self.waiters:
                self.waiters.remove(cur)
            if reason == 'timeout' and self.owner is not None:
                return False
        self.owner = cur
        sim.run.ev('acq', self.name, cur.id)
        return True

    def release(self):
        sim = self.sim
        cur = sim._me()
        if self.owner is None:
            raise RuntimeError('release unlocked lock')
        self.owner = None
        sim.run.ev('rel', self.name, cur.id)
        for w in list(self.waiters):
            sim.wake(w, 'lock')
        sim.prim_point('release')

    def locked(self):
        return self.owner is not None

    def __enter__(self):
        self.acquire()
        return self

    def __exit__(self, *a):
        self.release()


ACTIVE = {'sim': None}


class LockSelfDeadlock(BaseException):
    """A thread asked, without a timeout, for a non-reentrant lock it already holds: it would wait for ever."""


class HybridLock(object):
    """What the code under test gets from `threading.Lock()` when that name is rebound (seams.ThreadingProxy):
    a simulated lock while a Sim is running its main task, a real lock otherwise.  A lock is only ever used in one
    of the two modes during a run."""

    _count = [0]

    def __init__(self):
        HybridLock._count[0] += 1
        self.name = 'hlock%d' % HybridLock._count[0]
        self._real = threading.Lock()
        self._real_owner = None
        self._sim_lock = None
        self._sim = None

    def _mode(self):
        sim = ACTIVE['sim']
        if sim is None or sim.shut:
            return None
        if self._sim is not sim:
            self._sim = sim
            sim._hlocks = getattr(sim, '_hlocks', 0) + 1      # names are per simulation: logs must not depend on process history
            self._sim_lock = SimLock(sim, 'hlock%d' % sim._hlocks)
        return self._sim_lock

    def acquire(self, blocking=True, timeout=-1):
        lk = self._mode()
        if lk is None:
            me = threading.get_ident()
            if blocking and (timeout is None or timeout < 0) and self._real_owner == me and self._real.locked():
                raise LockSelfDeadlock('thread waits for ever for lock %s which it holds itself' % self.name)
            ok = self._real.acquire(blocking, timeout)
            if ok:
                self._real_owner = me
            return ok
        return lk.acquire(blocking, timeout)

    def release(self):
        lk = self._mode()
        if lk is None or (lk.owner is None and self._real.locked()):
            self._real_owner = None
            return self._real.release()
        return lk.release()

    def locked(self):
        lk = self._mode()
        return self._real.locked() if lk is None else lk.locked()

    def __enter__(self):
        self.acquire()
        return self

    def __exit__(self, *a):
        self.release()


class SimEvent(object):
    def __init__(self, sim, name='event'):
        self.sim = sim
        self.name = name
        self.flag = False
        self.waiters = []

    def is_set(self):
        self.sim.prim_point('is_set')
        return self.flag

    isSet = is_set

    def set(self):
        sim = self.sim
        sim.prim_point('set')
        self.flag = True
        sim.run.ev('set', self.name)
        for w in list(self.waiters):
            sim.wake(w, 'event')
        self.waiters = []

    def clear(self):
        self.sim.prim_point('clear')
        self.flag = False

    def wait(self, timeout=None):
        sim = self.sim
        sim.prim_point('wait')
        if self.flag:
            return True
        cur = sim._me()
        self.waiters.append(cur)
        sim.block(('event', self.name), timeout)
        if cur in self.waiters:
            self.waiters.remove(cur)
        return self.flag


class SimThread(object):
    """Drop-in for threading.Thread as used by the repository (target=, name=, setDaemon, start, join, is_alive)."""
    _sim = None

    def __init__(self, group=None, target=None, name=None, args=(), kwargs=None, daemon=None):
        self.sim = type(self)._sim
        self._target = target
        self._args = args
        self._kwargs = kwargs or {}
        self.name = name or 'thread'
        self.daemon = bool(daemon)
        self.task = None

    def setDaemon(self, flag):
        self.daemon = flag

    def run(self):
        if self._target is not None:
            self._target(*self._args, **self._kwargs)

    def start(self):
        if self.task is not None:
            raise RuntimeError('threads can only be started once')
        self.sim.prim_point('thread.start')
        self.task = self.sim.spawn(self.run, name=self.name)

    def join(self, timeout=None):
        if self.task is None:
            raise RuntimeError('cannot join thread before it is started')
        self.sim.join(self.task, timeout)

    def is_alive(self):
        self.sim.prim_point('is_alive')
        return self.task is not None and self.task.state not in (DONE, DEAD)

    isAlive = is_alive


def bound_primitives(sim):
    """Classes bound to one Sim, suitable for rebinding a module's `Thread`, `Lock`, `Event` names."""
    class Thread(SimThread):
        _sim = sim

    counter = [0]

    def Lock():
        counter[0] += 1
        return SimLock(sim, 'lock%d' % counter[0])

    def Event():
        counter[0] += 1
        return SimEvent(sim, 'event%d' % counter[0])

    return Thread, Lock, Event
