"""In-memory S3 behind the real S3BasicFacade / S3TapeCassette (DESIGN.md 2.2 'Fake S3').

Stands in for the `boto3` name of playback.tape_cassettes.s3.s3_basic_facade.  Models what the facade uses:
resource('s3').Bucket(b).objects.filter(Prefix=p) (lazy pages, UTF-8 byte order, continuation by last key),
ObjectSummary.key / .last_modified (tz-aware UTC, second resolution) / .get() / .delete(), collection .delete(),
client('s3').put_object / get_object (missing key raises a class named NoSuchKey).  Every mutation is logged with
its owner (the cassette under construction when the client was created); crash points and failing puts are
injected by mutation number.
"""
import datetime

import pytz


class SimCrash(BaseException):
    """The process died at a bucket mutation (only durable state survives)."""


class NoSuchKey(Exception):
    pass


class InjectedS3Error(Exception):
    pass


class Body(object):
    def __init__(self, data):
        self._data = data

    def read(self):
        return self._data


class World(object):
    def __init__(self, clock=None, page_size=1000):
        self.buckets = {}
        self.clock = clock or (lambda: datetime.datetime(2020, 1, 1, 12, 0, 0))
        self.page_size = page_size
        self.log = []                 # (seq, op, bucket, key, owner)
        self.owner = None             # tag given to clients / resources created now
        self.crash_before = None      # mutation number
        self.crash_after = None
        self.fail_put = None
        self.fail_put_keys = []       # substrings of keys whose puts fail persistently (outlasting client retries)
        self.list_calls = 0
        self.fail_list_at = None      # number of the listing request (page) that fails once with an injected error
        self.list_faults_fired = 0
        self.get_calls = 0
        self.observers = []           # callables(seq, op, key) invoked after every mutation (concurrent readers)

    # -- the boto3 module surface
    def resource(self, kind, **kw):
        assert kind == 's3'
        return Resource(self, self.owner)

    def client(self, kind, region_name=None, **kw):
        assert kind == 's3'
        return Client(self, self.owner)

    # -- storage
    def bucket(self, name):
        return self.buckets.setdefault(name, {})

    def _mutate(self, op, bucket, key, owner, apply):
        n = len(self.log)
        if self.crash_before is not None and n == self.crash_before:
            raise SimCrash('crash before mutation %d (%s %s)' % (n, op, key))
        if op == 'put' and self.fail_put_keys and any(part in key for part in self.fail_put_keys):
            self.log.append((n, 'put-failed', bucket, key, owner))
            raise InjectedS3Error('injected: put_object keeps failing (%s)' % key)
        if op == 'put' and self.fail_put is not None and n == self.fail_put:
            self.fail_put = None
            self.log.append((n, 'put-failed', bucket, key, owner))
            raise InjectedS3Error('injected: put_object failed (%s)' % key)
        apply()
        self.log.append((n, op, bucket, key, owner))
        for ob in list(self.observers):
            ob(n, op, key)
        if self.crash_after is not None and n == self.crash_after:
            raise SimCrash('crash after mutation %d (%s %s)' % (n, op, key))

    def now_utc(self):
        t = self.clock()
        if t.tzinfo is None:
            t = pytz.utc.localize(t)
        return t.replace(microsecond=0)

    def snapshot(self):
        return dict((b, dict((k, v[0]) for k, v in objs.items())) for b, objs in self.buckets.items())

    def mutations(self, owner=None):
        return [e for e in self.log if e[1] != 'put-failed' and (owner is None or e[4] == owner)]


class Client(object):
    def __init__(self, world, owner):
        self.world = world
        self.owner = owner

    def put_object(self, Bucket=None, Key=None, Body=None, **kwargs):
        data = Body.encode('utf-8') if isinstance(Body, str) else bytes(Body)
        w = self.world
        stamp = w.now_utc()
        w._mutate('put', Bucket, Key, self.owner, lambda: w.bucket(Bucket).__setitem__(Key, (data, stamp, dict(kwargs))))
        return {'ResponseMetadata': {'HTTPStatusCode': 200}}

    def get_object(self, Bucket=None, Key=None, **kwargs):
        self.world.get_calls += 1
        objs = self.world.bucket(Bucket)
        if Key not in objs:
            raise NoSuchKey('An error occurred (NoSuchKey) when calling the GetObject operation: %s' % Key)
        return {'Body': Body(objs[Key][0]), 'LastModified': objs[Key][1]}


class Resource(object):
    def __init__(self, world, owner):
        self.world = world
        self.owner = owner

    def Bucket(self, name):
        return BucketResource(self.world, name, self.owner)


class BucketResource(object):
    def __init__(self, world, name, owner):
        self.world = world
        self.name = name
        self.owner = owner
        self.objects = ObjectsManager(self)


class ObjectsManager(object):
    def __init__(self, bucket):
        self.bucket = bucket

    def filter(self, Prefix=None, **kw):
        return Collection(self.bucket, Prefix or '')

    def all(self):
        return Collection(self.bucket, '')


class Collection(object):
    def __init__(self, bucket, prefix):
        self.bucket = bucket
        self.prefix = prefix

    def __iter__(self):
        w = self.bucket.world
        last = None
        while True:
            w.list_calls += 1
            if w.fail_list_at is not None and w.list_calls == w.fail_list_at:
                w.fail_list_at = None
                w.list_faults_fired += 1
                raise InjectedS3Error('injected: listing request %d failed' % w.list_calls)
            objs = w.bucket(self.bucket.name)
            keys = sorted((k for k in objs if k.startswith(self.prefix)), key=lambda k: k.encode('utf-8'))
            if last is not None:
                keys = [k for k in keys if k.encode('utf-8') > last.encode('utf-8')]
            page = keys[:w.page_size]
            if not page:
                return
            # a page is a snapshot: summaries carry the metadata seen at listing time
            summaries = [ObjectSummary(self.bucket, k, objs[k][1], objs[k][2].get('StorageClass', 'STANDARD')) for k in page]
            for s in summaries:
                yield s
            last = page[-1]
            if len(page) < w.page_size:
                return

    def delete(self):
        for s in list(self):
            s.delete()
        return []


class ObjectSummary(object):
    def __init__(self, bucket, key, last_modified, storage_class='STANDARD'):
        self.bucket = bucket
        self.bucket_name = bucket.name
        self.key = key
        self.last_modified = last_modified
        self.storage_class = storage_class
        self.size = len(bucket.world.bucket(bucket.name).get(key, (b'',))[0])

    def get(self, **kw):
        w = self.bucket.world
        w.get_calls += 1
        objs = w.bucket(self.bucket.name)
        if self.key not in objs:
            raise NoSuchKey('An error occurred (NoSuchKey) when calling the GetObject operation: %s' % self.key)
        return {'Body': Body(objs[self.key][0])}

    def delete(self):
        w = self.bucket.world
        objs = w.bucket(self.bucket.name)
        if self.key in objs:
            w._mutate('delete', self.bucket.name, self.key, self.bucket.owner, lambda: objs.pop(self.key, None))
