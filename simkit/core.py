"""Run context, results and violations shared by all property checks."""
import hashlib
from collections import Counter


class HarnessError(Exception):
    """Something is wrong with the harness (never reported as a property violation, never as a pass)."""


class Violation(object):
    def __init__(self, prop, oracle, signature, message):
        self.prop = prop
        self.oracle = oracle
        self.signature = signature  # narrow, stable identifier used by known_findings.json
        self.message = message

    def to_json(self):
        return {'property': self.prop, 'oracle': self.oracle, 'signature': self.signature, 'message': self.message}

    def __repr__(self):
        return 'Violation(%s/%s: %s)' % (self.prop, self.oracle, self.message)


class Run(object):
    """Everything one simulated execution produced.  `log` is the event log whose digest proves determinism."""

    def __init__(self, prop):
        self.prop = prop
        self.log = []
        self.trace = []       # human-readable decoded operations / faults / switches (for replay files, samples)
        self.violations = []
        self.probes = Counter()
        self.faults = Counter()   # fired fault kinds
        self.nontrivial = False
        self.sim_time = 0.0
        self.switches = 0
        self.steps = 0
        self.sched = None     # tuple of context-switch sequence (for distinct_schedules)
        self.config = {}
        self.subruns = 1

    def ev(self, *items):
        self.log.append(items)

    def say(self, text):
        if len(self.trace) < 400:
            self.trace.append(text)

    def violate(self, oracle, signature, message):
        v = Violation(self.prop, oracle, '%s/%s/%s' % (self.prop, oracle, signature), message)
        self.violations.append(v)
        self.say('VIOLATION %s: %s' % (oracle, message))
        return v

    def check(self, cond, oracle, signature, message):
        if not cond:
            self.violate(oracle, signature, message() if callable(message) else message)
        return cond

    def probe(self, name, n=1):
        self.probes[name] += n

    def fault(self, name, n=1):
        self.faults[name] += n

    def digest(self):
        return hashlib.sha256(repr(self.log).encode('utf-8', 'backslashreplace')).hexdigest()[:16]

    def sched_digest(self):
        if self.sched is None:
            return None
        return hashlib.sha256(repr(self.sched).encode()).hexdigest()[:12]
