"""Parallel seeded runner, violation handling, replay files, evidence (DESIGN.md 2.6, 2.7)."""
from __future__ import print_function

import faulthandler
import gc
import importlib
import json
import logging
import multiprocessing
import os
import subprocess
import sys
import time
import traceback
from collections import Counter
from concurrent.futures import ProcessPoolExecutor

from . import REPO, VERIF, bind_repo
from .core import HarnessError, Run
from .shrink import shrink
from .tape import Tape, hash64, replay_tape, TapeExhausted

WORKERS = int(os.environ.get('VERIF_WORKERS', '16'))
PER_INDEX_WATCHDOG = 300


def load_prop(prop_id):
    bind_repo()
    logging.disable(logging.CRITICAL)
    mod = importlib.import_module('props.%s' % prop_id.lower())
    return mod


def repo_head():
    try:
        return subprocess.check_output(['git', '-C', REPO, 'rev-parse', 'HEAD'], stderr=subprocess.DEVNULL).decode().strip()
    except Exception:
        return 'unknown'


def safe_run_tape(mod, tape):
    """Run one tape.  An exception escaping the check with a frame inside the repository under test is a
    violation (oracle `unexpected_exception`): every check drives documented API only and catches what the
    property allows.  Anything else is a harness error."""
    try:
        return mod.run_tape(tape)
    except TapeExhausted:
        raise
    except HarnessError:
        raise
    except BaseException as ex:  # noqa
        if isinstance(ex, (KeyboardInterrupt, SystemExit, MemoryError)):
            raise
        tb = traceback.extract_tb(sys.exc_info()[2])
        repo_frames = [f for f in tb if os.path.realpath(f.filename).startswith(os.path.realpath(REPO) + os.sep)]
        if not repo_frames or getattr(mod, 'UNEXPECTED_EXCEPTION_IS_HARNESS_ERROR', False):
            raise HarnessError('exception in harness: %s\n%s' % (repr(ex), traceback.format_exc()))
        run = Run(mod.PROP)
        last = repo_frames[-1]
        run.trace.append('uncaught %s' % ''.join(traceback.format_exception_only(type(ex), ex)).strip())
        for f in tb[-8:]:
            run.trace.append('  at %s:%s %s' % (f.filename, f.lineno, f.name))
        run.violate('unexpected_exception', '%s@%s.%s' % (type(ex).__name__, os.path.basename(last.filename)[:-3], last.name),
                    'uncaught %r escaped from %s:%d (%s)' % (ex, last.filename, last.lineno, last.name))
        run.log.append(('uncaught', type(ex).__name__, last.name))
        return run


def default_run_index(mod, i, seed, tier, emit):
    t = Tape(seed)
    emit(safe_run_tape(mod, t), t)


def _worker(args):
    prop_id, tier, base_seed, w, nworkers, max_index, deadline, start_index = args
    faulthandler.enable()
    gc.disable()
    mod = load_prop(prop_id)
    out = {
        'evaluations': 0, 'indices': [], 'digests': set(), 'scheds': set(), 'probes': Counter(), 'faults': Counter(),
        'sim_time': 0.0, 'switches': 0, 'steps': 0, 'violations': {}, 'samples': [], 'nontrivial': 0, 'error': None,
        'viol_count': 0, 'seeds': [],
    }

    class Expired(Exception):
        pass

    def emit(run, tape):
        _emit(run, tape)
        if time.time() > deadline + 5 and not getattr(mod, 'NO_EARLY_STOP', False):
            raise Expired()

    def _emit(run, tape):
        out['evaluations'] += run.subruns
        d = run.digest()
        if run.nontrivial:
            out['nontrivial'] += 1
            out['digests'].add(d)
        sd = run.sched_digest()
        if sd is not None:
            out['scheds'].add(sd)
        out['probes'].update(run.probes)
        out['faults'].update(run.faults)
        out['sim_time'] += run.sim_time
        out['switches'] += run.switches
        out['steps'] += run.steps
        if run.nontrivial and len(out['samples']) < 2 and not run.violations and run.trace:
            out['samples'].append({'seed': tape.seed, 'config': run.config, 'trace': run.trace[:40]})
        for v in run.violations:
            out['viol_count'] += 1
            if v.signature not in out['violations'] and len(out['violations']) < 12:
                out['violations'][v.signature] = {'violation': v.to_json(), 'seed': tape.seed, 'tape': list(tape.used),
                                                  'trace': run.trace[:200], 'config': run.config}

    i = start_index + w
    try:
        while i < max_index and time.time() < deadline:
            faulthandler.dump_traceback_later(PER_INDEX_WATCHDOG, exit=True)
            seed = hash64(base_seed, prop_id, i)
            try:
                if hasattr(mod, 'run_index'):
                    mod.run_index(i, seed, tier, emit)
                else:
                    default_run_index(mod, i, seed, tier, emit)
            except Expired:
                faulthandler.cancel_dump_traceback_later()
                out['partial_items'] = out.get('partial_items', 0) + 1
                break
            faulthandler.cancel_dump_traceback_later()
            out['indices'].append(i)
            if len(out['seeds']) < 4:
                out['seeds'].append(seed)
            i += nworkers
            if len(out['indices']) % 50 == 0:
                gc.collect()
    except BaseException as ex:  # noqa
        faulthandler.cancel_dump_traceback_later()
        out['error'] = 'index %d seed %d: %s\n%s' % (i, hash64(base_seed, prop_id, i), repr(ex), traceback.format_exc())
    out['digests'] = list(out['digests'])
    out['scheds'] = list(out['scheds'])
    return out


def load_known_findings():
    path = os.path.join(VERIF, 'known_findings.json')
    if not os.path.exists(path):
        return []
    with open(path) as f:
        return json.load(f).get('findings', [])


def reproduce_fn(mod, signature):
    def reproduces(values):
        t = replay_tape(values)
        try:
            run = safe_run_tape(mod, t)
        except (HarnessError, TapeExhausted):
            return None
        for v in run.violations:
            if v.signature == signature:
                return list(t.used)
        return None
    return reproduces


def write_replay(mod, tier, found, base_seed):
    v = found['violation']
    sig = v['signature']
    rep = reproduce_fn(mod, sig)
    values, nruns, ok = shrink(found['tape'], rep, max_runs=int(os.environ.get('VERIF_SHRINK_RUNS', '1500')),
                               max_seconds=float(os.environ.get('VERIF_SHRINK_S', '60')))
    t = replay_tape(values)
    trace, message, config = found['trace'], v['message'], found.get('config', {})
    reproduced = False
    try:
        run = safe_run_tape(mod, t)
        for vv in run.violations:
            if vv.signature == sig:
                trace, message, config, reproduced = run.trace[:200], vv.message, run.config, True
                break
    except (HarnessError, TapeExhausted):
        pass
    if not reproduced:
        values = found['tape']
    replay_dir = os.environ.get('VERIF_REPLAY_DIR', os.path.join(VERIF, 'replays'))
    os.makedirs(replay_dir, exist_ok=True)
    import hashlib
    path = os.path.join(replay_dir, '%s-%d-%s.json' % (mod.PROP, found['seed'], hashlib.sha256(sig.encode()).hexdigest()[:6]))
    with open(path, 'w') as f:
        json.dump({'property': mod.PROP, 'oracle': v['oracle'], 'signature': sig, 'engine': mod.META.get('engine'),
                   'tier': tier, 'seed': found['seed'], 'base_seed': base_seed, 'config': config, 'tape': values,
                   'trace': trace, 'message': message, 'repo_head': repo_head(), 'shrink_runs': nruns,
                   'reproduced_after_shrink': reproduced}, f, indent=1, default=repr)
    return path, reproduced


def run_check(prop_id, tier, base_seed, seconds=None, max_index=None, workers=None):
    t0 = time.time()
    mod = load_prop(prop_id)
    meta = mod.META
    budget = meta['budgets'][tier]
    max_index = max_index if max_index is not None else budget.get('max_index', 10 ** 9)
    seconds = seconds if seconds is not None else budget['seconds']
    if os.environ.get('VERIF_SECONDS'):
        seconds = float(os.environ['VERIF_SECONDS'])
    nworkers = workers or WORKERS
    deadline = t0 + seconds
    jobs = [(prop_id, tier, base_seed, w, nworkers, max_index, deadline, 0) for w in range(nworkers)]
    ctx = multiprocessing.get_context('fork')
    results = []
    errors = []
    with ProcessPoolExecutor(max_workers=nworkers, mp_context=ctx) as pool:
        futs = [pool.submit(_worker, j) for j in jobs]
        for fu in futs:
            try:
                results.append(fu.result(timeout=seconds + PER_INDEX_WATCHDOG + 60))
            except BaseException as ex:  # noqa
                errors.append('worker failed: %r' % (ex,))
    agg = {'evaluations': 0, 'indices': set(), 'digests': set(), 'scheds': set(), 'probes': Counter(), 'faults': Counter(),
           'sim_time': 0.0, 'switches': 0, 'steps': 0, 'violations': {}, 'samples': [], 'nontrivial': 0, 'viol_count': 0,
           'seeds': []}
    for r in results:
        if r['error']:
            errors.append(r['error'])
        agg['evaluations'] += r['evaluations']
        agg['indices'].update(r['indices'])
        agg['digests'].update(r['digests'])
        agg['scheds'].update(r['scheds'])
        agg['probes'].update(r['probes'])
        agg['faults'].update(r['faults'])
        agg['sim_time'] += r['sim_time']
        agg['switches'] += r['switches']
        agg['steps'] += r['steps']
        agg['nontrivial'] += r['nontrivial']
        agg['viol_count'] += r['viol_count']
        agg['samples'].extend(r['samples'])
        agg['seeds'].extend(r['seeds'])
        for sig, found in r['violations'].items():
            if sig not in agg['violations'] or found['seed'] < agg['violations'][sig]['seed']:
                agg['violations'][sig] = found
    run_wall = time.time() - t0

    known = load_known_findings()
    exit_code = 0
    known_seen = []
    new_violations = []
    for sig in sorted(agg['violations']):
        found = agg['violations'][sig]
        entry = next((k for k in known if k.get('state') == 'finding' and k.get('signature') == sig), None)
        if entry is not None:
            print('KNOWN-FINDING: property=%s %s' % (prop_id, entry.get('text', sig)))
            known_seen.append(sig)
            continue
        path, reproduced = write_replay(mod, tier, found, base_seed)
        print('VIOLATION property=%s replay=%s' % (prop_id, path))
        print('  signature: %s' % sig)
        print('  message: %s' % found['violation']['message'])
        new_violations.append(sig)
        exit_code = 1

    table_chunks = meta.get('table_chunks', {}).get(tier, 0)
    exhaustive_done = table_chunks > 0 and all(i in agg['indices'] for i in range(table_chunks))
    missing_probes = [p for p in meta.get('required_probes', {}).get(tier, []) if agg['probes'].get(p, 0) == 0]
    wall = time.time() - t0
    coverage = {
        'evaluations': agg['evaluations'],
        'distinct_nontrivial': len(agg['digests']),
        'rule': meta['rule'],
        'samples': sorted(agg['samples'], key=lambda s: s['seed'])[:3],
        'work_items': len(agg['indices']),
        'nontrivial_runs': agg['nontrivial'],
        'runs_per_hour': int(agg['evaluations'] / max(run_wall, 1e-6) * 3600),
        'seeds': {'base': base_seed, 'derivation': 'hash64(base, property, index)', 'first': agg['seeds'][:4]},
        'sim_time_s': round(agg['sim_time'], 3),
        'fault_counts': dict(sorted(agg['faults'].items())),
        'context_switches': agg['switches'],
        'scheduling_steps': agg['steps'],
        'distinct_schedules': len(agg['scheds']),
        'probes': dict(sorted(agg['probes'].items())),
        'components_real': meta.get('components_real', []),
        'components_stub': meta.get('components_stub', []),
        'known_findings_seen': known_seen,
        'violation_runs': agg['viol_count'],
        'workers': nworkers,
        'repo_head': repo_head(),
    }
    if table_chunks:
        coverage['exhaustive'] = bool(exhaustive_done)
        coverage['exhaustive_part'] = meta.get('exhaustive_part', '')
    evidence = {
        'property_id': prop_id, 'tier': tier, 'seed': base_seed, 'level': meta['level'], 'coverage': coverage,
        'assumptions': meta.get('assumptions', []), 'wall_s': round(wall, 2), 'violations': len(new_violations),
    }
    if errors:
        print('HARNESS-ERROR %s: %s' % (prop_id, errors[0][:3000]))
        exit_code = 2 if exit_code == 0 else exit_code
    elif table_chunks and not exhaustive_done:
        print('HARNESS-ERROR %s: table part not completed within budget (%d chunks)' % (prop_id, table_chunks))
        exit_code = 2 if exit_code == 0 else exit_code
    elif missing_probes and exit_code == 0:
        print('HARNESS-ERROR %s: probes never reached: %s' % (prop_id, ', '.join(missing_probes)))
        exit_code = 2
    write_evidence(prop_id, evidence)
    print('%s %s: %d evaluations (%d distinct non-trivial), %d work items, %.1fs, faults=%s%s' % (
        prop_id, tier, agg['evaluations'], len(agg['digests']), len(agg['indices']), wall,
        dict(agg['faults'].most_common(6)), '' if exit_code == 0 else ' EXIT %d' % exit_code))
    return exit_code


def write_evidence(prop_id, evidence):
    import jsonschema
    with open('/root/.vp/EVIDENCE.schema.json') if os.path.exists('/root/.vp/EVIDENCE.schema.json') else \
            open(os.path.join(VERIF, 'simkit', 'EVIDENCE.schema.json')) as f:
        schema = json.load(f)
    text = json.dumps(evidence, indent=1, default=repr, sort_keys=True)
    try:
        jsonschema.validate(json.loads(text), schema)
    except jsonschema.ValidationError as ex:
        print('HARNESS-WARNING evidence does not validate: %s' % str(ex)[:300])
    # evidence of runs against a scratch copy (VERIF_REPO set) never overwrites the evidence of /repo itself
    default_dir = os.path.join(VERIF, 'evidence') if os.path.realpath(REPO) == '/repo' else '/tmp/verif-scratch-evidence'
    edir = os.environ.get('VERIF_EVIDENCE_DIR', default_dir)
    os.makedirs(edir, exist_ok=True)
    with open(os.path.join(edir, '%s.json' % prop_id), 'w') as f:
        f.write(text + '\n')


def replay_file(path):
    with open(path) as f:
        rep = json.load(f)
    mod = load_prop(rep['property'])
    t = replay_tape(rep['tape'])
    run = safe_run_tape(mod, t)
    for line in run.trace[:200]:
        print('  | %s' % line)
    hit = [v for v in run.violations if v.signature == rep['signature']]
    if hit:
        print('VIOLATION property=%s replay=%s' % (rep['property'], path))
        print('  signature: %s' % hit[0].signature)
        print('  message: %s' % hit[0].message)
        print('  digest: %s' % run.digest())
        return 1
    if run.violations:
        print('replay produced a different violation: %s' % run.violations[0].signature)
        return 1
    print('replay did not reproduce (property holds on this tree for this tape); digest %s' % run.digest())
    return 0
