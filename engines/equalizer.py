"""equalizer engine: the real Equalizer over simulated processes, queues, kill and clock (DESIGN.md C08 / C13)."""
import copy
import os as _real_os

from simkit import REPO, seams
from simkit import values as V
from simkit.core import HarnessError
from simkit.fake_mp import FakeMP
from simkit.sim import Sim, SimDeadlock, SimLimit, SimKilled

from playback.studio import equalizer as EQ
from playback.studio.equalizer import Equalizer, EqualityStatus, ComparatorResult, CompareExecutionConfig
from playback.tape_cassettes.in_memory.in_memory_tape_cassette import InMemoryTapeCassette
from playback.tape_recorder import TapeRecorder

TARGET = _real_os.path.join(REPO, 'playback', 'studio', 'equalizer.py')

WORKER_ONLY = ('worker_exit', 'worker_abort', 'worker_hang', 'worker_late_answer', 'worker_late_death')
BEHAVIOURS = ['equal', 'different', 'player_raises', 'operation_raises', 'extractor_raises', 'comparator_raises', 'comparator_bare_status', 'slow',
              'worker_exit', 'worker_abort', 'worker_hang', 'worker_late_answer', 'worker_late_death', 'spawns_helper', 'missing_key', 'unpicklable_extract', 'leaves_thread', 'slow_near_timeout']

ALLOWED = {
    'equal': ['Equal'], 'slow': ['Equal'], 'different': ['Different'], 'spawns_helper': ['Equal'],
    'missing_key': ['EqualizerFailure'], 'unpicklable_extract': ['Equal'], 'leaves_thread': ['Equal'], 'slow_near_timeout': ['Equal'],
    'player_raises': ['EqualizerFailure'], 'operation_raises': ['EqualizerFailure'], 'extractor_raises': ['EqualizerFailure'], 'comparator_raises': ['EqualizerFailure'],
    'comparator_bare_status': ['Fixed'],
    'worker_exit': ['EqualizerFailure'], 'worker_abort': ['EqualizerFailure'], 'worker_hang': ['EqualizerFailure'],
    'worker_late_answer': ['Equal', 'EqualizerFailure'],
    'worker_late_death': ['EqualizerFailure'],
}


class World(object):
    """Harness-owned state visible to the playback function, extractor and comparator (read-only tables are
    shared between 'processes'; per-process counters are keyed by pid)."""

    def __init__(self, run, tape, sim, mp):
        self.run, self.tape, self.sim, self.mp = run, tape, sim, mp
        self.tag_of = {}            # recording id -> tag
        self.behaviour = {}         # tag -> behaviour
        self.timeout = 2.0
        self.late_eps = {}
        self.dedicated = True
        self.handled = {}           # pid -> number of replays served
        self.helped = {}
        self.played = []            # (pid, tag)
        self.hang_ignores_sigterm = False
        self.unprintable_errors = False
        self.exit_code = 3

    def effective(self, tag):
        b = self.behaviour.get(tag, 'equal')
        if not self.dedicated and b in WORKER_ONLY:
            return 'equal'
        return b

    def pid(self):
        proc = self.mp.current_proc() if self.mp is not None else None
        return proc.pid if proc is not None else 0


def make_recordings(world, n, categories=('OpA',)):
    """n real recordings in an in-memory cassette; each carries its tag inside its recorded value."""
    cassette = InMemoryTapeCassette()
    recorder = TapeRecorder(cassette)
    recorder.enable_recording()
    Op = build_operation(recorder, world)
    ids = []
    for i in range(n):
        tag = 't%d' % i
        world.recording_phase = True
        Op().execute(tag)
        rid = cassette.get_last_recording_id()
        world.tag_of[rid] = tag
        ids.append(rid)
    world.recording_phase = False
    recorder.disable_recording()
    return cassette, ids


def build_operation(recorder, world):
    class OpA(object):
        @recorder.operation()
        def execute(self, tag):
            v = self.read(tag)
            self.emit(tag)
            if not getattr(world, 'recording_phase', False):
                if world.effective(tag) == 'missing_key':
                    # the replayed code asks for an input the (older) recording does not hold, after it already sent an
                    # output: play() fails with a missing-key error for this recording
                    world.run.fault('replay_misses_a_key')
                    self.read('never-recorded-%s' % tag)
                behave(world, tag)
            changed = (not getattr(world, 'recording_phase', False)) and world.effective(tag) == 'different'
            return {'tag': tag, 'v': 'changed' if changed else v}

        @recorder.intercept_input('read')
        def read(self, tag):
            return 'value-of-%s' % tag

        @recorder.intercept_output('emit')
        def emit(self, tag):
            return None
    from simkit import dynclasses
    dynclasses.register('OpA', OpA)
    return OpA


class Unprintable(Exception):
    """An exception whose text cannot be produced (str() raises): reporting it must not take the worker loop down a
    path that skips its bookkeeping."""

    def __str__(self):
        raise ValueError('no text for this error')

    __repr__ = __str__


def behave(world, tag):
    """Runs inside the playback function, i.e. inside the worker process in dedicated mode."""
    b = world.effective(tag)
    sim = world.sim
    pid = world.pid()
    world.handled[pid] = world.handled.get(pid, 0) + 1
    world.played.append((pid, tag))
    if b == 'operation_raises':
        world.run.fault('operation_raises')
        raise RuntimeError('replayed operation fails for %s' % tag)
    if b == 'spawns_helper' and world.mp is not None:
        # the replayed operation does part of its work in a helper process of its own (a pool, a subprocess wrapper)
        world.run.probe('replayed_operation_starts_a_helper_process')
        box = world.helped.setdefault(tag, [])
        helper = world.mp.Process(target=_helper_main, args=(box, tag), name='helper')
        helper.start()
        helper.join()
        if ('helped', tag) not in box:
            raise RuntimeError('helper process did not run for %s' % tag)
    if b == 'leaves_thread' and world.mp is not None:
        # the replayed code starts a non-daemon thread and never stops it: the replay itself is fine, but the worker process
        # will not be able to finish an orderly exit
        proc = world.mp.current_proc()
        if proc is not None:
            world.run.fault('worker_cannot_exit')
            proc.exit_hangs = True
    if b == 'slow':
        sim.sleep(0.3)
    if b == 'slow_near_timeout' and world.timeout >= 2:
        # a healthy replay that takes most of the allowed time (it answers 0.9 s before the timeout; environment delays stay
        # below 0.5 s): it must not be given up on early
        world.run.fault('replay_takes_most_of_the_timeout')
        sim.sleep(world.timeout - 0.9)
    elif b == 'worker_exit':
        world.run.fault('worker_exit')
        raise SystemExit(world.exit_code)       # the replayed code calls sys.exit(): status 0 is as dead as status 3
    elif b == 'worker_abort':
        world.run.fault('worker_exit')
        proc = world.mp.current_proc()
        proc.kill()            # dies like os._exit / a segfault: nothing is flushed
    elif b == 'worker_hang':
        world.run.fault('worker_hang')
        proc = world.mp.current_proc()
        if proc is not None and world.hang_ignores_sigterm:
            proc.ignores_sigterm = True      # the replayed service installed a SIGTERM handler; only SIGKILL ends it
        sim.sleep(1e7)
    elif b == 'worker_late_death':
        # hangs until the parent is about to give up, then dies by itself (between the parent's last liveness poll
        # and the liveness check of its timeout handling)
        world.run.fault('worker_late_death')
        sim.sleep(world.timeout + (0.0 if sim.jitter else 1.0) + world.late_eps.get(tag, 0.0))
        world.mp.current_proc().kill()
    elif b == 'worker_late_answer':
        world.run.fault('worker_late_answer')
        # the parent gives up after ceil(timeout) seconds when computation costs time (jitter) and one polling slice
        # later when it is free; the late answer is aimed at that instant +- epsilon
        sim.sleep(world.timeout + (0.0 if sim.jitter else 1.0) + world.late_eps.get(tag, 0.0))


def _helper_main(box, tag):
    box.append(('helped', tag))       # (harness-owned shared memory: stands for whatever the helper hands back)


class Player(object):
    """player(recording_id) -> Playback; forks with its own recorder and cassette copy."""

    def __init__(self, world, cassette):
        self.world = world
        self.cassette = cassette
        self.recorder = TapeRecorder(cassette)
        self.Op = build_operation(self.recorder, world)

    def __call__(self, recording_id):
        world = self.world
        Op = self.Op

        def playback_function(recording):
            tag = world.tag_of[recording.id]
            if world.effective(tag) == 'player_raises':
                # the playback function itself fails (before the operation runs): play() raises, no Playback exists
                world.handled[world.pid()] = world.handled.get(world.pid(), 0) + 1
                world.run.fault('player_raises')
                if world.unprintable_errors:
                    raise Unprintable()
                raise RuntimeError('playback function fails for %s' % tag)
            Op().execute(tag)
        return self.recorder.play(recording_id, playback_function)

    def __sim_fork__(self):
        return Player(self.world, copy.deepcopy(self.cassette))


class Extractor(object):
    def __init__(self, world):
        self.world = world

    def __call__(self, outputs):
        val = next(o.value['args'][0] for o in outputs if TapeRecorder.OPERATION_OUTPUT_ALIAS in o.key)
        if isinstance(val, dict) and self.world.effective(val.get('tag')) == 'extractor_raises':
            self.world.run.fault('extractor_raises')
            raise ValueError('extractor fails for %s' % val.get('tag'))
        if isinstance(val, dict):
            # everything the run sent takes part in the comparison
            val = dict(val, emitted=[o.value['args'] for o in outputs if TapeRecorder.OPERATION_OUTPUT_ALIAS not in o.key])
            if self.world.effective(val.get('tag')) == 'unpicklable_extract':
                # what the extractor hands to the comparator need not be picklable (a handle, a lazily built view)
                self.world.run.probe('extractor_result_not_picklable')
                val['handle'] = Handle(val.get('tag'))
        return val


class Handle(object):
    """Compares by content, refuses to be pickled."""

    def __init__(self, tag):
        self.tag = tag

    def __eq__(self, other):
        return isinstance(other, Handle) and other.tag == self.tag

    __hash__ = None

    def __reduce__(self):
        raise TypeError('cannot pickle a Handle')


class Comparator(object):
    def __init__(self, world):
        self.world = world

    def __call__(self, recorded, replayed, **data):
        b = self.world.effective(recorded.get('tag'))
        if b == 'comparator_raises':
            self.world.run.fault('comparator_raises')
            raise KeyError('comparator fails for %s' % recorded.get('tag'))
        if b == 'comparator_bare_status':
            self.world.run.fault('comparator_bare_status')
            return EqualityStatus.Fixed
        if data and 'rid' in data:
            # the comparator gets the comparison data of THIS recording: nothing more, nothing less
            tag = recorded.get('tag')
            want = {'tolerance': int(tag[1:])} if int(tag[1:]) % 3 == 0 else {}
            got = dict((k, v) for k, v in data.items() if k != 'rid')
            if got != want:
                self.world.run.violate('verdict_of_that_recording_alone', 'comparison-data-of-another-recording',
                                       'the comparator of %s was called with comparison data %s, its own data is %s' % (tag, sorted(got.items()), sorted(want.items())))
        status = EqualityStatus.Equal if recorded == replayed else EqualityStatus.Different
        return ComparatorResult(status, 'compared %s with %s%s' % (recorded.get('tag'), replayed.get('tag'), ' data=%s' % data.get('rid') if data else ''))


class DataExtractor(object):
    def __init__(self, world):
        self.world = world

    def __call__(self, recording):
        # the key set varies between recordings: an optional entry only some of them carry
        tag = self.world.tag_of.get(recording.id, 't0')
        data = {'rid': recording.id}
        if int(tag[1:]) % 3 == 0:
            data['tolerance'] = int(tag[1:])
        return data


def status_name(comparison):
    st = comparison.comparator_status
    es = getattr(st, 'equality_status', st)
    return getattr(es, 'name', str(es))


class Scenario(object):
    """Configuration of one simulated comparison run, all drawn from the tape."""

    def __init__(self, tape, force_dedicated=None):
        self.n = 3 + tape.draw(10)
        self.dedicated = (tape.draw(4) != 0) if force_dedicated is None else force_dedicated
        self.recycle = 1 + tape.draw(5)
        self.timeout = float(1 + tape.draw(5))
        self.keep = bool(tape.draw(2))
        self.data_extractor = tape.draw(3) == 2
        self.jitter = tape.choice([0, 0, 4])
        # environment delays stay well inside the smallest timeout (1 s): a healthy replay that is slower than the
        # timeout is legitimately reported as a timeout and would say nothing about attribution
        self.queue_delay = tape.choice([0.0, 0.0, 0.01, 0.1])
        self.slow_start = tape.choice([0.0, 0.0, 0.25])
        self.preempt = tape.choice([0.0, 0.0, 0.05, 0.3])
        self.fault_rate = tape.choice([0, 1, 2, 4])          # out of 8
        self.duplicates = tape.draw(5) == 4
        self.idle_kill = tape.draw(6) == 5
        self.consume = tape.weighted([(5, 'full'), (2, 'close_early'), (1, 'consumer_raises'), (1, 'drop_reference')])
        self.consume_k = tape.draw(self.n + 1)
        self.behaviours = []
        for i in range(self.n):
            if tape.draw(8) < self.fault_rate:
                self.behaviours.append(BEHAVIOURS[1 + tape.draw(len(BEHAVIOURS) - 1)])
            else:
                self.behaviours.append('equal')
        self.late_eps = [tape.choice([0.0, -0.01, 0.01, 0.0005]) for _ in range(self.n)]
        self.hang_ignores_sigterm = bool(tape.draw(2))
        self.unprintable_errors = tape.draw(3) == 2
        self.exit_code = tape.choice([3, 0, 1])
        self.exit_delay = tape.choice([0.0, 0.0, 0.4, 1.6])      # a retiring worker may take a while to go (non-daemon threads, atexit)
        self.consumer_pause = tape.choice([0.0, 0.0, 0.0, 3.0, 7.0])  # the consumer of the lazy generator is busy between two results
        self.kill_fails = tape.draw(8) == 7                       # os.kill raises OSError (EPERM): tolerated by the code, the worker lives on
        self.idle_kill_at = tape.draw(self.n)

    def describe(self):
        return ('n=%d %s recycle=%d timeout=%.0fs keep=%s jitter=%d queue_delay=%s slow_start=%s preempt=%s consume=%s@%d idle_kill=%s behaviours=%s' % (
            self.n, 'dedicated-process' if self.dedicated else 'in-process', self.recycle, self.timeout, self.keep, self.jitter, self.queue_delay,
            self.slow_start, self.preempt, self.consume, self.consume_k, (self.idle_kill_at if self.idle_kill else None),
            [b for b in self.behaviours]))


class Outcome(object):
    def __init__(self):
        self.comparisons = []
        self.durations = []
        self.ids = []
        self.world = None
        self.mp = None
        self.sim = None
        self.deadlock = None
        self.limit = None
        self.alive_after = None
        self.alive_after_grace = None
        self.finished = False
        self.consumer_error = None
        self.killed_when = None
        self.interrupted = False
        self.leaving = False


def run_scenario(run, tape, sc):
    """Executes the scenario under the simulator; returns Outcome (oracles live in props/c08.py and c13.py)."""
    out = Outcome()
    sim = Sim(tape, run, preempt_p=sc.preempt, prim_p=sc.preempt, target_files=[TARGET], jitter=sc.jitter, max_steps=400000, max_time=1e5)
    mp = FakeMP(sim, run, tape, max_queue_delay=sc.queue_delay, slow_start=sc.slow_start)
    world = World(run, tape, sim, mp)
    world.timeout = sc.timeout
    world.dedicated = sc.dedicated
    world.hang_ignores_sigterm = sc.hang_ignores_sigterm
    world.unprintable_errors = sc.unprintable_errors
    world.exit_code = sc.exit_code
    mp.exit_delay = sc.exit_delay
    out.world, out.mp, out.sim = world, mp, sim
    cassette, ids = make_recordings(world, sc.n)
    if sc.duplicates and len(ids) > 2:
        ids[-1] = ids[0]
    for i, rid in enumerate(ids):
        tag = world.tag_of[rid]
        if i < len(sc.behaviours) and not (sc.duplicates and i == len(ids) - 1):
            world.behaviour[tag] = sc.behaviours[i]
            world.late_eps[tag] = sc.late_eps[i]
    out.ids = ids
    sigproxy = mp.signal_proxy()
    osproxy = mp.os_proxy(_real_os)
    osproxy.kill_raises = bool(getattr(sc, 'kill_fails', False)) and getattr(sc, 'allow_kill_failure', False)

    def main():
        cfg = CompareExecutionConfig(keep_results_in_comparison=sc.keep, compare_in_dedicated_process=sc.dedicated,
                                     compare_process_recycle_rate=sc.recycle, compare_process_timeout=sc.timeout)
        eq = Equalizer(iter(ids), Player(world, cassette), Extractor(world), Comparator(world),
                       comparison_data_extractor=DataExtractor(world) if sc.data_extractor else None, compare_execution_config=cfg)
        gen = eq.run_comparison()
        killer = None
        if getattr(sc, 'sigint_at', None) is not None and sc.dedicated:
            me = sim.current

            def terminal():
                sim.sleep(sc.sigint_at)
                if out.finished or out.leaving:
                    return
                run.fault('sigint_to_process_group')
                mp.sigint_group(sigproxy)
                sim.interrupt(me, KeyboardInterrupt())
            sim.spawn(terminal, name='terminal')
        try:
            k = 0
            while True:
                if sc.consume != 'full' and k >= sc.consume_k:
                    if sc.consume == 'consumer_raises':
                        try:
                            raise RuntimeError('consumer fails')
                        except RuntimeError as ex:
                            out.consumer_error = ex
                    break
                if sc.consumer_pause and k and k % 2 == 0:
                    try:
                        sim.sleep(sc.consumer_pause)
                    except KeyboardInterrupt as ex:
                        out.consumer_error = ex
                        out.interrupted = True
                        break
                t0 = sim.now
                try:
                    c = next(gen)
                except StopIteration:
                    break
                except KeyboardInterrupt as ex:
                    # Ctrl-C in the terminal: the whole process group got SIGINT; the parent abandons the run
                    out.consumer_error = ex
                    out.interrupted = True
                    break
                out.durations.append(sim.now - t0)
                out.comparisons.append(c)
                k += 1
                if sc.idle_kill and sc.dedicated and k - 1 == sc.idle_kill_at:
                    # something outside kills the idle worker between two recordings (OOM killer, operator) while
                    # the consumer of the lazy generator is busy with the comparison it just got
                    live = [p for p in mp.processes if p.alive_quiet()]
                    if live:
                        out.killed_when = len(out.comparisons)      # index of the comparison that meets the dead worker
                        run.fault('worker_dies_idle')
                        live[-1].killed_by = 'external'
                        live[-1].kill()
        finally:
            out.leaving = True
            if sc.consumer_pause:
                sim.sleep(sc.consumer_pause)       # ... and also before it lets go of the generator
            if sc.consume == 'drop_reference':
                # the consumer simply forgets the generator (and the equalizer) instead of closing it: reference counting
                # finalises the generator at once
                run.probe('generator_dropped_without_close')
                gen = None
                eq = None
            else:
                gen.close()
            out.finished = True
        out.alive_after = [p.pid for p in mp.processes if p.alive_quiet()]
        sim.sleep(0.05 + 0.02 + sc.slow_start + sc.exit_delay + (0.01 if sc.jitter else 0))
        out.alive_after_grace = [p.pid for p in mp.processes if p.alive_quiet()]
        if out.alive_after_grace:
            # a worker that could not be killed lives on while its replay lasts; once that returns it must notice that
            # the run is over and leave
            sim.sleep(sc.timeout + 3.0 + sc.exit_delay)
        out.alive_eventually = [p.pid for p in mp.processes if p.alive_quiet()]
        if killer is not None:
            sim.join(killer, 1.0)

    pairs = [(EQ.__name__, 'mp', mp), (EQ.__name__, 'os', osproxy), (EQ.__name__, 'time', sim.time), (EQ.__name__, 'signal', sigproxy)]
    with seams.rebind(pairs):
        try:
            sim.run_main(main)
        except SimDeadlock as ex:
            out.deadlock = str(ex)
        except SimLimit as ex:
            out.limit = str(ex)
    return out
