"""storage engine: histories of saves / lookups / restarts on the three real cassettes, with a reference model
(DESIGN.md 3.3 ModelStore, model_match)."""
import fnmatch
import re

from simkit import values as V

CATEGORIES = ['OpA', 'OpAB', 'OpA_b', 'OpB']
KEY_TEXTS = ['k', 'input: a args=[1], kwargs=[]', 'output: o #1.output', 'output: o #10.result', 'q"uote', "sq'uote", 'back\\slash', u'unicöde ☃ key',
             'a/b', 'a_b', 'a.b', 'a#1', '{"json": [1, 2]}', '[', '}', ' ', 'x' * 300, 'tab\there', 'new\nline', '%s %d {0}', 'null', 'true', '0',
             'r\udce9sum\udce9.txt']      # (the last one: a file name decoded with surrogate escapes)
META_KEYS = ['m', 'n', 'flag', 'name', 'tags', 'nested', 'size']
JSON_ATOMS = [None, True, False, 0, 1, 2, -1, 1.5, 2.0, '', 'a', 'ab', 'abc', 'b', 'A', '1', 'a*', '[a]',
              u'Z\u00fcrich', 'the "old" town', 'C:\\temp\\x', 'two\nlines']      # text that JSON stores escaped


def gen_json_value(tape, depth=1):
    k = tape.draw(8)
    if depth > 0 and k == 6:
        return [gen_json_value(tape, depth - 1) for _ in range(tape.draw(3))]
    if depth > 0 and k == 7:
        return dict((tape.choice(['x', 'y', 'operator', 'value']), gen_json_value(tape, depth - 1)) for _ in range(tape.draw(3)))
    return tape.choice(JSON_ATOMS)


def gen_metadata(tape):
    md = {}
    for key in META_KEYS:
        if tape.draw(2):
            md[key] = gen_json_value(tape)
    return md


class ModelStore(object):
    """id -> (category, metadata, data, saved_at) and the documented lookup semantics; results are sets."""

    def __init__(self):
        self.recs = {}

    def save(self, rid, category, metadata, data, saved_at=None):
        self.recs[rid] = (category, dict(metadata), dict(data), saved_at)

    def lookup(self, category, metadata_filter=None, start=None, end=None):
        out = set()
        dontcare = set()
        for rid, (cat, md, data, at) in self.recs.items():
            if cat != category:
                continue
            if start is not None and at is not None and not (start <= at and (end is None or at <= end)):
                continue
            if metadata_filter:
                verdicts = [model_match(fv, md.get(k), k in md) for k, fv in metadata_filter.items()]
                if any(v is False for v in verdicts):
                    continue
                if any(v is None for v in verdicts):
                    dontcare.add(rid)
                    continue
            out.add(rid)
        return out, dontcare


def is_operator(f):
    return isinstance(f, dict) and 'operator' in f and 'value' in f


def model_match(filt, value, present=True):
    """The documented matcher.  True / False, or None where the documentation is silent (don't care: the
    implementation must answer with a bool and must not raise)."""
    if not present:
        value = None
    if isinstance(filt, list):
        vs = [model_match(f, value, present) for f in filt]
        if any(v is True for v in vs):
            return True
        if any(v is None for v in vs):
            return None
        return False
    if is_operator(filt):
        op, ref = filt['operator'], filt['value']
        if op not in ('=', '<', '<=', '>', '>='):
            return None            # unknown operator: undocumented
        if value is None:
            return None if ref is None else False      # a missing value matches only a None alternative
        if op == '=':
            return value == ref
        comparable = (isinstance(value, (int, float)) and not isinstance(value, bool) and isinstance(ref, (int, float)) and not isinstance(ref, bool)) or \
                     (isinstance(value, str) and isinstance(ref, str))
        if not comparable:
            if isinstance(value, (bool, int, float)) and isinstance(ref, (bool, int, float)):
                return None        # bool vs number ordering: python compares them, documentation silent
            if type(value) is type(ref) and isinstance(value, list):
                return None        # lists order lexicographically in python: documentation silent
            return False           # incomparable types never satisfy an ordering
        return {'<': value < ref, '<=': value <= ref, '>': value > ref, '>=': value >= ref}[op]
    if filt is None:
        return value is None
    if value is None:
        return False
    if isinstance(filt, str):
        if isinstance(value, str):
            return re.fullmatch(fnmatch.translate(filt), value) is not None
        if set(filt) <= set('*'):
            return None            # a pure wildcard against a non-string value: documentation silent
        return False
    return value == filt
