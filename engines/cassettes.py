"""Durable stores behind the three real cassettes, with restart (a new cassette object over the same state)."""
import os
import shutil
import tempfile

from playback.tape_cassettes.in_memory.in_memory_tape_cassette import InMemoryTapeCassette
from playback.tape_cassettes.file_based.file_based_tape_cassette import FileBasedTapeCassette
from playback.tape_cassettes.s3 import s3_basic_facade
from playback.tape_cassettes.s3.s3_tape_cassette import S3TapeCassette

from simkit import fakes3

KINDS = ['memory', 'file', 's3']
S3_PREFIXES = ['a', 'ab', 'a/b', 'b', '']
# prefixes spelt with the words of the cassette's own key layout (tape_recorder_recordings/{full,metadata}/<id>)
S3_LAYOUT_PREFIXES = ['metadata', 'svc/metadata', 'metadata/v2', 'full', 'env{prod}', 'tenant-{0}/{}', '50%d']    # ... and with characters key templates / formats interpret
SCRATCH = '/dev/shm' if os.path.isdir('/dev/shm') and os.access('/dev/shm', os.W_OK) else tempfile.gettempdir()


class _Boto(object):
    """What playback's facade sees as `boto3`: forwards to the fake S3 world of the current run."""
    world = None

    def resource(self, *a, **k):
        return _Boto.world.resource(*a, **k)

    def client(self, *a, **k):
        return _Boto.world.client(*a, **k)


s3_basic_facade.boto3 = _Boto()


def set_world(world):
    _Boto.world = world


class Store(object):
    def __init__(self, kind, key_prefix='a', world=None, page_size=1000, clock=None):
        self.kind = kind
        self.key_prefix = key_prefix
        self.dir = None
        self.mem = None
        self.world = world
        self.opened = 0
        if kind == 'memory':
            self.mem = InMemoryTapeCassette()
        elif kind == 'file':
            self.dir = tempfile.mkdtemp(prefix='pbverif-', dir=SCRATCH)
        else:
            if world is None:
                self.world = fakes3.World(clock=(clock.utc if clock is not None else None), page_size=page_size)
            set_world(self.world)

    def open(self, read_only=False, transient=False, owner=None, **kw):
        """A cassette object over the durable state; every call is a restart (except memory: state is the object)."""
        self.opened += 1
        if self.kind == 'memory':
            return self.mem
        if self.kind == 'file':
            return FileBasedTapeCassette(self.dir)
        set_world(self.world)
        self.world.owner = owner or ('c%d' % self.opened)
        if getattr(self, 'ia_kb', None) is not None:
            kw.setdefault('infrequent_access_kb_threshold', self.ia_kb)      # a storage-class threshold configured for this store
        try:
            return S3TapeCassette('bkt', key_prefix=self.key_prefix, read_only=read_only, transient=transient, **kw)
        finally:
            self.world.owner = None

    def snapshot(self):
        """Byte-level durable state (for 'nothing was created, changed or saved')."""
        if self.kind == 'memory':
            return dict(self.mem._recordings)
        if self.kind == 'file':
            out = {}
            for name in sorted(os.listdir(self.dir)):
                with open(os.path.join(self.dir, name), 'rb') as f:
                    out[name] = f.read()
            return out
        return self.world.snapshot()

    def describe(self):
        return self.kind if self.kind != 's3' else 's3(prefix=%r)' % self.key_prefix

    def close(self):
        if self.dir is not None:
            shutil.rmtree(self.dir, ignore_errors=True)
            self.dir = None

    def __enter__(self):
        return self

    def __exit__(self, *a):
        self.close()


def gen_store(tape, clock=None, kinds=None, nonempty_prefix=True):
    kind = tape.choice(kinds or KINDS)
    prefix = 'a'
    page = 1000
    if kind == 's3':
        prefix = tape.choice((S3_PREFIXES[:4] if nonempty_prefix else S3_PREFIXES) + S3_LAYOUT_PREFIXES)
        page = tape.choice([1000, 1, 2])
    return Store(kind, key_prefix=prefix, page_size=page, clock=clock)
