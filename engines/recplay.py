"""recplay engine: a generated service recorded and replayed by the real TapeRecorder (DESIGN.md 3.2).

A *service* is a set of real Python classes built with the real decorators: an operation class (instance or
class-level operation, optional metadata extractor, optional recording parameters) and a dependency class `Dep`
holding intercepted inputs (instance / static / property, resolver aliases, capture selections, data handlers,
missing-key options, nested interceptions) and intercepted outputs.  The operation body is an interpreted list of
steps.  The *environment* answers the wrapped bodies from pre-generated outcome tables and journals every body
execution with object identities, so that transparency, exactly-once and replay fidelity are observable.
"""
import copy
import threading
from collections import namedtuple

from playback.exceptions import TapeRecorderException
from playback.interception.input_interception import InputInterceptionDataHandler
from playback.interception.output_interception import OutputInterceptionDataHandler
from playback.tape_recorder import TapeRecorder, CapturedArg, RecordingParameters

from simkit import dynclasses as D
from simkit import values as V

OP_NAMES = ['OpA', 'OpAB', 'OpA_b', 'OpB']


IN_ALIASES = ['in%d', 'in%d', 'input: i%d', 'get.%d', 'result%d', 'in %d', 'fetch_result_%d', 'output: as input %d']
SHORT_ALIASES = ['input', 'in', 'i', 'put', 'args', 'kwargs']
OUT_ALIASES = ['out%d', 'out%d', 'result_%d', 'send results %d', 'out%d.result', 'output: o%d', 'x%d result', 'publish_results%d']


class InputSpec(object):
    def __init__(self, idx, alias=None):
        self.idx = idx
        self.alias = alias or 'in%d' % idx
        self.kind = 'instance'        # instance | static | property
        self.resolver = False
        self.capture = None           # None | [] | [CapturedArg]
        self.capture_desc = 'all'
        self.handler = False
        self.fallback = None          # None | ('list', [alias]) | ('fn', [alias])
        self.run_when_missing = False
        self.value_when_missing = ('none',)   # ('none',) | ('value', v) | ('callable', v)
        self.npos = 1                 # positional parameters (besides self)
        self.kwnames = []             # keyword parameter names
        self.nested = None            # ('in'|'out', idx) called from inside the body
        self.mutates_args = False     # the body modifies its (mutable) arguments in place, e.g. request.setdefault(...)
        self.pool = []                # [(args, kwargs)] distinct in their captured part
        self.outcomes = {}            # (resolved alias, captured canon) -> ('value', v) | ('raise', cls)

    def describe(self):
        return '%s[%s%s%s cap=%s%s%s]' % (self.alias, self.kind, ' resolver' if self.resolver else '',
                                          ' handler' if self.handler else '', self.capture_desc,
                                          ' nested=%s%d' % self.nested if self.nested else '',
                                          ' fallback=%s' % (self.fallback,) if self.fallback else '')


class OutputSpec(object):
    def __init__(self, idx, alias=None):
        self.idx = idx
        self.alias = alias or 'out%d' % idx
        self.kind = 'instance'
        self.handler = False
        self.fail_on_missing = True
        self.default_result = None
        self.results = []             # per-ordinal results: ('value', v) | ('raise', cls)

    def describe(self):
        return '%s[%s%s]' % (self.alias, self.kind, ' handler' if self.handler else '')


class OpSpec(object):
    def __init__(self):
        self.name = 'OpA'
        self.kind = 'instance'        # instance | class
        self.extractor = None         # None | 'ok' | 'raises' | 'junk0'..
        self.params = None            # dict for RecordingParameters or None
        self.params_style = 'object'  # object | kwargs | attributes (set on the object after it was registered)

    def describe(self):
        return '%s(%s op, extractor=%s, params=%s)' % (self.name, self.kind, self.extractor, self.params)


class ServiceSpec(object):
    def __init__(self):
        self.op = OpSpec()
        self.inputs = []
        self.outputs = []
        self.body = []
        self.user_metadata = {'user_key': 'user_value', 'n': 3}

    def describe(self):
        lines = ['service %s' % self.op.describe()]
        for i in self.inputs:
            lines.append('  input  %s' % i.describe())
        for o in self.outputs:
            lines.append('  output %s' % o.describe())
        lines.append('  body   %s' % describe_steps(self.body))
        return lines


def describe_steps(steps):
    out = []
    for st in steps:
        k = st[0]
        if k == 'in':
            out.append('IN(i%d,#%d%s%s)' % (st[1], st[2], ',dep%d' % st[3] if st[3] else '',
                                               ',fault=%s' % st[4] if st[4] else ''))
        elif k == 'out':
            out.append('OUT(o%d,%s%s)' % (st[1], V.short(st[2], 30), ',fault=%s' % st[4] if st[4] else ''))
        elif k == 'spawn':
            out.append('SPAWN%s[%s]' % ('*' if st[2] else '', ' | '.join(describe_steps(b) for b in st[1])))
        elif k == 'rec':
            out.append('REC(%s)' % st[1])
        elif k == 'play':
            out.append('PLAY(%s)' % st[1])
        elif k == 'raise':
            out.append('RAISE(%s)' % st[1].__name__)
        elif k == 'sleep':
            out.append('SLEEP(%s)' % st[1])
        elif k == 'mut':
            out.append('MUTATE-LAST')
        else:
            out.append(k.upper())
    return ' '.join(out)


# ---------------------------------------------------------------------------------------------- model of capture
def touch_arguments(args, kwargs):
    """What an intercepted body that 'normalises its request' does: in-place changes of the mutable arguments."""
    touched = False
    for v in list(args) + [kwargs[k] for k in sorted(kwargs)]:
        if isinstance(v, list):
            v.append('TOUCHED')
        elif isinstance(v, dict):
            v['TOUCHED'] = 1
        elif isinstance(v, set):
            v.add('TOUCHED')
        elif isinstance(v, (D.Pt, D.Box)):
            v.TOUCHED = True
        else:
            continue
        touched = True
    return touched


def model_captured(ispec, args, kwargs):
    """Reference model of which argument values identify a call (independent of the repository's key builder).
    `args` excludes the instance.  Returns a canonical form."""
    if ispec.capture is None:
        return V.canon((list(args), sorted(kwargs.items())))
    if not ispec.capture:
        return V.canon(([], []))
    full = ((None,) + tuple(args)) if ispec.kind != 'static' else tuple(args)
    cargs, ckw = [], []
    for ca in ispec.capture:
        if ca.name in kwargs:
            ckw.append((ca.name, kwargs[ca.name]))
        elif ca.position is not None:
            cargs.append(full[ca.position])
    return V.canon((cargs, sorted(ckw)))


def resolved_alias(ispec, dep_name):
    return ispec.alias + '.' + dep_name if ispec.resolver else ispec.alias


# ---------------------------------------------------------------------------------------------- generation
def gen_service(tape, run, max_inputs=4, max_outputs=3, max_steps=12, threads=False, allow_faulty_ops=False,
                rich_missing=False, value_depth=2, max_calls_per_alias=None, arg_mutating_inputs=False):
    spec = ServiceSpec()
    odd_aliases = tape.draw(3) == 2
    op = spec.op
    op.name = tape.choice(OP_NAMES)
    op.kind = 'instance' if tape.draw(3) < 2 else 'class'
    op.extractor = tape.weighted([(3, None), (3, 'ok')])
    ninputs = 1 + tape.draw(max_inputs)
    noutputs = tape.draw(max_outputs + 1)
    for i in range(ninputs):
        alias = (tape.choice(IN_ALIASES) % i) if odd_aliases else None
        if odd_aliases and tape.draw(4) == 3:
            alias = SHORT_ALIASES[i % len(SHORT_ALIASES)]      # aliases that are substrings of the key syntax itself
        spec.inputs.append(gen_input(tape, run, i, value_depth, rich_missing, alias=alias))
        if arg_mutating_inputs and tape.draw(4) == 3:
            spec.inputs[-1].mutates_args = True
    for j in range(noutputs):
        o = OutputSpec(j, alias=(tape.choice(OUT_ALIASES) % j) if odd_aliases else None)
        o.kind = 'instance' if tape.draw(3) < 2 else 'static'
        o.handler = tape.draw(4) == 3
        spec.outputs.append(o)
    # nested interceptions: an input body that calls another interception from inside
    for i in spec.inputs:
        if i.kind != 'property' and tape.draw(5) == 4:
            cands = [('in', x.idx) for x in spec.inputs if x.idx != i.idx and x.nested is None and x.kind != 'property'] + \
                    [('out', y.idx) for y in spec.outputs]
            if cands:
                i.nested = tape.choice(cands)
    nsteps = 1 + tape.draw(max_steps)
    spec.body = gen_steps(tape, run, spec, nsteps, threads, value_depth, top=True)
    return spec


def gen_input(tape, run, idx, value_depth, rich_missing, alias=None):
    i = InputSpec(idx, alias)
    i.kind = tape.weighted([(4, 'instance'), (2, 'static'), (1, 'property')])
    if i.kind == 'property':
        i.npos, i.kwnames = 0, []
    else:
        i.npos = tape.draw(3)
        i.kwnames = ['kw', 'opt'][:tape.draw(3)]
    i.resolver = i.kind != 'static' and tape.draw(4) == 3
    i.handler = tape.draw(4) == 3
    if i.kind != 'property' and (i.npos or i.kwnames):
        c = tape.draw(5)
        if c == 0 or c == 1:
            i.capture, i.capture_desc = None, 'all'
        elif c == 2:
            i.capture, i.capture_desc = [], 'none'
        else:
            caps = []
            base = 1 if i.kind != 'static' else 0
            for p in range(i.npos):
                if tape.draw(2):
                    caps.append(CapturedArg(base + p, 'p%d' % p))
            for k in i.kwnames:
                if tape.draw(2):
                    caps.append(CapturedArg(None, k))
            if not caps:
                caps = [CapturedArg(base, 'p0')] if i.npos else [CapturedArg(None, i.kwnames[0])]
            i.capture = caps
            i.capture_desc = ','.join('%s@%s' % (c_.name, c_.position) for c_ in caps)
    # pool of distinct calls
    npool = 1 + tape.draw(3)
    seen = set()
    for _ in range(npool * 2):
        if len(i.pool) >= npool:
            break
        args = tuple(V.gen_faithful(tape, run, value_depth) for _ in range(i.npos))
        kwargs = dict((k, V.gen_faithful(tape, run, value_depth)) for k in i.kwnames if tape.draw(3) < 2)
        c = model_captured(i, args, kwargs)
        if c in seen:
            continue
        seen.add(c)
        i.pool.append((args, kwargs))
    if not i.pool:
        i.pool.append((tuple(0 for _ in range(i.npos)), {}))
    return i


def gen_outcome(tape, run, value_depth):
    if tape.draw(6) == 5:
        return ('raise', tape.choice(D.EXC_CLASSES))
    return ('value', V.gen_faithful(tape, run, value_depth))


def gen_steps(tape, run, spec, nsteps, threads, value_depth, top=False, own_inputs=None, own_outputs=None):
    steps = []
    inputs = own_inputs if own_inputs is not None else spec.inputs
    outputs = own_outputs if own_outputs is not None else spec.outputs
    spawned = False
    for _ in range(nsteps):
        k = tape.weighted([(6, 'in'), (4, 'out'), (1 if top else 0, 'rec'),
                           (2 if (threads and top and not spawned) else 0, 'spawn')])
        if k == 'out' and not outputs:
            k = 'in'
        if k == 'in' and not inputs:
            k = 'rec'
        if k == 'in':
            i = tape.choice(inputs)
            steps.append(['in', i.idx, tape.draw(len(i.pool)), tape.draw(2), None])
        elif k == 'out':
            o = tape.choice(outputs)
            nargs = tape.draw(3)
            args = tuple(V.gen_faithful(tape, run, value_depth) for _ in range(nargs))
            kwargs = {'kw': V.gen_faithful(tape, run, value_depth)} if tape.draw(3) == 2 else {}
            steps.append(['out', o.idx, (args, kwargs), gen_outcome(tape, run, value_depth), None])
        elif k == 'rec':
            steps.append(['rec', 'data%d' % tape.draw(3), V.gen_faithful(tape, run, value_depth)])
        elif k == 'spawn':
            nthreads = 1 + tape.draw(2)
            bodies = []
            # each thread gets its own inputs (by arg pool partition is not possible in general: use own aliases)
            ins = tape.shuffle(spec.inputs)
            outs = tape.shuffle(spec.outputs)
            for t in range(nthreads):
                own_in = ins[t::nthreads + 1]
                own_out = outs[t::nthreads + 1]
                if not own_in and not own_out:
                    continue
                bodies.append(gen_steps(tape, run, spec, 1 + tape.draw(4), False, value_depth,
                                        own_inputs=own_in, own_outputs=own_out))
            if bodies:
                spawned = True
                steps.append(['spawn', bodies, False])
                # main thread keeps to the remaining interceptions from now on
                inputs = ins[nthreads::nthreads + 1]
                outputs = outs[nthreads::nthreads + 1]
    return steps


def flat_steps(steps, acc=None):
    """All steps in program order, thread bodies included (used for fault placement)."""
    acc = [] if acc is None else acc
    for st in steps:
        acc.append(st)
        if st[0] == 'spawn':
            for b in st[1]:
                flat_steps(b, acc)
    return acc


def fill_outcomes(tape, run, spec, value_depth=2):
    """Draw the environment: an outcome per distinct call of each input (a function of alias + captured args)."""
    for i in spec.inputs:
        for dep in ('d0', 'd1'):
            for (args, kwargs) in i.pool:
                key = (resolved_alias(i, dep), model_captured(i, args, kwargs))
                if key not in i.outcomes:
                    i.outcomes[key] = gen_outcome(tape, run, value_depth)


# ---------------------------------------------------------------------------------------------- environment
class Env(object):
    """Answers wrapped bodies; journals every body execution."""

    def __init__(self, spec, run, recorder=None):
        self.spec = spec
        self.run = run
        self.recorder = recorder
        self.journal = []           # (kind, alias, token, thread)
        self.tripwire = False
        self.fresh_copies = False     # hand out deep copies (for services that mutate what they receive)
        self.allowed_bodies = set()  # tokens whose body execution is predicted in replay (run-original policy)
        self.tls = threading.local()
        self.lock = threading.Lock()

    def cur(self):
        return getattr(self.tls, 'call', None)

    def input_body(self, ispec, dep, args, kwargs):
        call = self.cur() or {}
        nested_inside = call.get('inside') is not None
        token = call.get('token')
        self.journal.append(('in', ispec.alias, token, call.get('thread'), nested_inside))
        if not nested_inside:
            call['bodies'] = call.get('bodies', 0) + 1
            # same argument objects
            exp = call.get('args')
            if exp is not None:
                call['args_identical'] = len(exp[0]) == len(args) and all(a is b for a, b in zip(exp[0], args)) and \
                    set(exp[1]) == set(kwargs) and all(kwargs[k] is exp[1][k] for k in kwargs)
        fault = call.get('fault') if not nested_inside else None
        if fault in ('disable_in_body', 'disable_in_body_handler_raises') and self.recorder is not None:
            # recording is switched off (kill switch, another thread) while this interception is inside its body
            self.run.fault('disable_in_body')
            self.disabled_in_body = True
            self.recorder.disable_recording()
        if fault == 'discard_in_body_handler_raises' and self.recorder is not None:
            # the body discards the recording (as another thread might, at that moment) and then the data handler fails too
            self.run.fault('discard_in_body')
            self.recorder.discard_recording()
        if fault in ('discard_in_body', 'force_in_body') and self.recorder is not None:
            self.run.fault(fault)
            if fault == 'discard_in_body':
                self.recorder.discard_recording()
            else:
                self.recorder.force_sample_recording()
        if ispec.nested is not None and not nested_inside:
            call['inside'] = ispec.alias
            try:
                self.call_nested(ispec, dep)
            finally:
                call['inside'] = None
        if fault == 'interrupt_in_body':
            self.run.fault(fault)
            raise D.Interrupt()
        if nested_inside:
            return ('inner', ispec.alias)
        key = (resolved_alias(ispec, dep.name if dep is not None else 'd0'), model_captured(ispec, args, kwargs))
        if ispec.mutates_args and touch_arguments(args, kwargs):
            self.run.probe('input_body_mutated_its_argument')
        out = call.get('outcome_override') or ispec.outcomes.get(key)
        if out is None:
            out = ('value', ('unplanned', ispec.alias))
        if out[0] == 'raise_payload':
            ex = D.ErrPayload(copy.deepcopy(out[1]))
            call['raised'] = ex
            raise ex
        if out[0] == 'raise':
            ex = out[1]()
            call['raised'] = ex
            raise ex
        value = copy.deepcopy(out[1]) if (self.fresh_copies and not call.get('outcome_override')) else out[1]
        call['returned'] = value
        call['returned_set'] = True
        return value

    def call_nested(self, ispec, dep):
        kind, idx = ispec.nested
        d = dep if dep is not None else self.tls.call.get('dep0')
        try:
            if kind == 'in':
                inner = self.spec.inputs[idx]
                args, kwargs = inner.pool[0]
                self.tls.call['nested_result'] = call_input(d, inner, args, kwargs)
            else:
                inner = self.spec.outputs[idx]
                self.tls.call['nested_result'] = call_output(d, inner, ('nested',), {})
        except TapeRecorderException:
            raise
        except Exception as ex:
            self.tls.call['nested_result'] = ('exc', type(ex).__name__)

    def output_body(self, ospec, args, kwargs):
        call = self.cur() or {}
        nested_inside = call.get('inside') is not None
        self.journal.append(('out', ospec.alias, call.get('token'), call.get('thread'), nested_inside))
        if nested_inside:
            return ('inner', ospec.alias)
        call['bodies'] = call.get('bodies', 0) + 1
        exp = call.get('args')
        if exp is not None:
            call['args_identical'] = len(exp[0]) == len(args) and all(a is b for a, b in zip(exp[0], args)) and \
                set(exp[1]) == set(kwargs) and all(kwargs[k] is exp[1][k] for k in kwargs)
        fault = call.get('fault')
        if fault in ('disable_in_body', 'disable_in_body_handler_raises') and self.recorder is not None:
            # recording is switched off (kill switch, another thread) while this interception is inside its body
            self.run.fault('disable_in_body')
            self.disabled_in_body = True
            self.recorder.disable_recording()
        if fault == 'discard_in_body_handler_raises' and self.recorder is not None:
            # the body discards the recording (as another thread might, at that moment) and then the data handler fails too
            self.run.fault('discard_in_body')
            self.recorder.discard_recording()
        if fault in ('discard_in_body', 'force_in_body') and self.recorder is not None:
            self.run.fault(fault)
            if fault == 'discard_in_body':
                self.recorder.discard_recording()
            else:
                self.recorder.force_sample_recording()
        if fault == 'interrupt_in_body':
            self.run.fault(fault)
            raise D.Interrupt()
        out = call.get('result', ('value', None))
        if out[0] == 'raise':
            ex = out[1]()
            call['raised'] = ex
            raise ex
        value = copy.deepcopy(out[1]) if self.fresh_copies else out[1]
        call['returned'] = value
        call['returned_set'] = True
        return value


class RevInputHandler(InputInterceptionDataHandler):
    def __init__(self, env):
        self.env = env

    def prepare_input_for_recording(self, interception_key, result, args, kwargs):
        call = self.env.cur() or {}
        if call.get('fault') in ('handler_raises', 'disable_in_body_handler_raises', 'discard_in_body_handler_raises'):
            self.env.run.fault('handler_raises')
            raise RuntimeError('injected: input handler fails')
        return {'wrapped': result, 'nargs': len(args)}

    def restore_input_from_recording(self, recorded_data, args, kwargs):
        call = self.env.cur() or {}
        if call.get('fault') == 'restore_raises':
            self.env.run.fault('restore_raises')
            raise RuntimeError('injected: input handler cannot restore this value')
        self.env.run.probe('handler_restored')
        return recorded_data['wrapped']


class OutHandler(OutputInterceptionDataHandler):
    def __init__(self, env):
        self.env = env

    def prepare_output_for_recording(self, interception_key, args, kwargs):
        call = self.env.cur() or {}
        if call.get('fault') == 'disable_in_handler' and self.env.recorder is not None:
            # recording is switched off (another thread, a kill switch) exactly while the output is being captured
            self.env.run.fault('disable_in_handler')
            self.env.disabled_in_body = True
            self.env.recorder.disable_recording()
        if call.get('fault') in ('handler_raises', 'disable_in_body_handler_raises', 'discard_in_body_handler_raises'):
            self.env.run.fault('handler_raises')
            raise RuntimeError('injected: output handler fails')
        return {'hargs': list(args), 'hkwargs': kwargs}

    def restore_output_from_recording(self, recorded_data):
        return recorded_data


def call_input(dep, ispec, args, kwargs):
    if ispec.kind == 'property':
        return getattr(dep, 'f_' + ispec.alias)
    if ispec.kind == 'static':
        return getattr(type(dep), 'f_' + ispec.alias)(*args, **kwargs)
    return getattr(dep, 'f_' + ispec.alias)(*args, **kwargs)


def call_output(dep, ospec, args, kwargs):
    if ospec.kind == 'static':
        return getattr(type(dep), 'f_' + ospec.alias)(*args, **kwargs)
    return getattr(dep, 'f_' + ospec.alias)(*args, **kwargs)


# ---------------------------------------------------------------------------------------------- building classes
class Service(object):
    """Real classes for one spec, one recorder (or none: the undecorated twin), one environment."""

    def __init__(self, spec, env, recorder=None, decorate=True, thread_factory=None, overrides=None):
        self.spec = spec
        self.env = env
        self.recorder = recorder
        self.decorate = decorate and recorder is not None
        self.thread_factory = thread_factory
        self.overrides = overrides or {}    # alias -> dict of decorator keyword overrides (for edited programs)
        self.token = 0
        self.checks = []         # per-call observations for the transparency oracle
        self.disabled_at = None  # number of interception calls begun when recording was switched off mid-operation
        self.calls_begun = 0
        self.threads = []        # (name, thread object, obs list)
        self.extractor_calls = 0
        self.mut_tape = None
        self.last_value = None
        self.partial_obs = None
        self.slept = 0.0
        self.last_result = None
        self.last_raised = None
        self.Dep = self._build_dep()
        self.Op = self._build_op()

    # -- dependency class with interceptions
    def _build_dep(self):
        env, rec, spec = self.env, self.recorder, self.spec
        ns = {}

        def make_input(ispec):
            if ispec.kind == 'static':
                def body(*args, **kwargs):
                    return env.input_body(ispec, None, args, kwargs)
            elif ispec.kind == 'property':
                def body(self_):
                    return env.input_body(ispec, self_, (), {})
            else:
                def body(self_, *args, **kwargs):
                    return env.input_body(ispec, self_, args, kwargs)
            body.__name__ = 'f_' + ispec.alias
            if not self.decorate:
                if ispec.kind == 'static':
                    return staticmethod(body)
                if ispec.kind == 'property':
                    return property(body)
                return body
            ov = self.overrides.get(ispec.alias, {})
            alias = ov.get('alias', ispec.alias + '.{name}' if ispec.resolver else ispec.alias)
            kw = dict(
                alias_params_resolver=self._resolver(ispec) if ispec.resolver else None,
                data_handler=RevInputHandler(env) if ispec.handler else None,
                capture_args=ispec.capture,
                run_intercepted_when_missing=ov.get('run_when_missing', ispec.run_when_missing),
                fallback_aliases=ov.get('fallback', self._fallback(ispec)),
            )
            vwm = ov.get('value_when_missing', ispec.value_when_missing)
            if vwm[0] == 'value':
                kw['value_when_missing'] = vwm[1]
            elif vwm[0] == 'callable':
                v = vwm[1]
                kw['value_when_missing'] = lambda *a, **k: v
            if ispec.kind == 'static':
                return staticmethod(rec.static_intercept_input(alias, **kw)(body))
            if ispec.kind == 'property':
                return rec.intercept_input(alias, **kw)(property(body))
            return rec.intercept_input(alias, **kw)(body)

        def make_output(ospec):
            if ospec.kind == 'static':
                def body(*args, **kwargs):
                    return env.output_body(ospec, args, kwargs)
            else:
                def body(self_, *args, **kwargs):
                    return env.output_body(ospec, args, kwargs)
            body.__name__ = 'f_' + ospec.alias
            if not self.decorate:
                return staticmethod(body) if ospec.kind == 'static' else body
            ov = self.overrides.get(ospec.alias, {})
            kw = dict(data_handler=OutHandler(env) if ospec.handler else None,
                      fail_on_no_recorded_result=ov.get('fail_on_missing', ospec.fail_on_missing),
                      default_result_when_not_recorded=ov.get('default_result', ospec.default_result))
            alias = ov.get('alias', ospec.alias)
            if ospec.kind == 'static':
                return staticmethod(rec.static_intercept_output(alias, **kw)(body))
            return rec.intercept_output(alias, **kw)(body)

        for i in spec.inputs:
            ns['f_' + i.alias] = make_input(i)
        for o in spec.outputs:
            ns['f_' + o.alias] = make_output(o)

        def __init__(self_, name):
            self_.name = name
        ns['__init__'] = __init__
        return type('Dep', (object,), ns)

    def _resolver(self, ispec):
        env = self.env

        def resolver(s, *a, **k):
            call = env.cur() or {}
            if call.get('fault') == 'resolver_raises':
                env.run.fault('resolver_raises')
                raise LookupError('injected: alias parameters cannot be resolved')
            return {'name': s.name}
        return resolver

    def _fallback(self, ispec):
        if ispec.fallback is None:
            return None
        kind, aliases = ispec.fallback
        if kind == 'list':
            return list(aliases)
        env = self.env

        def fallback_fn(*a, **k):
            call = env.cur() or {}
            if call.get('fault') == 'fallback_raises':
                env.run.fault('fallback_raises')
                raise RuntimeError('injected: fallback alias function fails')
            return list(aliases)
        return fallback_fn

    # -- operation class
    def _build_op(self):
        svc, spec, rec = self, self.spec, self.recorder

        def run_body(op_self_or_cls):
            interp = Interp(svc)
            return interp.run_operation()

        def extractor(*args, **kwargs):
            svc.extractor_calls += 1
            mode = spec.op.extractor
            if mode == 'raises':
                svc.env.run.fault('extractor_raises')
                raise RuntimeError('injected: extractor fails')
            if mode == 'ok':
                return dict(spec.user_metadata)
            if mode == 'discards':
                # runs during finalisation: the recording is no longer the active one, so this must be a no-op
                svc.env.run.fault('discard_in_extractor')
                rec.discard_recording()
                return dict(spec.user_metadata)
            svc.env.run.fault('extractor_junk')
            if mode == 'junk_lock':
                import threading
                return {'n': 1, 'lock': threading.Lock()}        # a well-formed dict holding a value nothing can copy or serialize
            return {'junk_none': None, 'junk_int': 7, 'junk_str': 'text', 'junk_list': [1, 2, 3]}[mode]

        ns = {}
        if spec.op.kind == 'class':
            def execute(cls):
                return run_body(cls)
            if self.decorate:
                execute = rec.class_operation(extractor if spec.op.extractor else None)(execute)
            ns['execute'] = classmethod(execute)
        else:
            def execute(self_):
                return run_body(self_)
            if self.decorate:
                execute = rec.operation(extractor if spec.op.extractor else None)(execute)
            ns['execute'] = execute
        if getattr(spec.op, 'subclass_of_decorated_base', False):
            # the operation and the recording parameters are declared on a base class; the service runs a subclass
            base = type('Base' + spec.op.name, (object,), ns)
            D.register('Base' + spec.op.name, base)
            if self.decorate:
                rec.recording_params(RecordingParameters(**(spec.op.params or {})))(base)
            cls = type(spec.op.name, (base,), {})
            D.register(spec.op.name, cls)
            # another service class inheriting the same decorated operation
            self.SiblingOp = type('Sibling' + spec.op.name, (base,), {})
            D.register('Sibling' + spec.op.name, self.SiblingOp)
            return cls
        cls = type(spec.op.name, (object,), ns)
        D.register(spec.op.name, cls)
        if self.decorate and spec.op.params is not None:
            if spec.op.params_style == 'kwargs':
                rec.recording_params(**spec.op.params)(cls)
            elif spec.op.params_style == 'attributes':
                # the documented public attributes of a default RecordingParameters, assigned after the registration
                p = RecordingParameters()
                rec.recording_params(p)(cls)
                for k in sorted(spec.op.params):
                    setattr(p, k, spec.op.params[k])
            else:
                rec.recording_params(RecordingParameters(**spec.op.params))(cls)
        return cls

    def invoke(self):
        """Run the operation once, like a caller of the service would."""
        cls = self.Op
        if getattr(self.spec.op, 'run_on_sibling', False) and getattr(self, 'SiblingOp', None) is not None:
            cls = self.SiblingOp
        if self.spec.op.kind == 'class':
            return cls.execute()
        return cls().execute()


CallCheck = namedtuple('CallCheck', 'kind alias thread bodies identical_return identical_raise args_identical note')


class EarlyReturn(Exception):
    pass


class Interp(object):
    """Interprets an operation body against the service classes."""
    clock = None

    def __init__(self, svc):
        self.svc = svc
        self.env = svc.env
        self.deps = [svc.Dep('d0'), svc.Dep('d1')]

    def run_operation(self):
        svc = self.svc
        obs = []
        svc.partial_obs = obs
        try:
            self.run_steps(svc.spec.body, obs, 'main')
        except EarlyReturn:
            pass
        except BaseException as ex:
            svc.last_raised = ex
            raise
        finally:
            hook = getattr(self.env, 'on_body_done', None)
            if hook is not None:
                hook()          # what follows in this thread is the recorder's finalisation of the operation
        res = {'obs': obs}
        res.update(getattr(svc.spec.op, 'result_extra', None) or {})      # extra members of the operation's result (C18)
        svc.last_result = res
        return res

    def _begin(self, tname, **kw):
        svc = self.svc
        svc.token += 1
        call = dict(token=svc.token, thread=tname, dep0=self.deps[0], **kw)
        self.env.tls.call = call
        return call

    def run_steps(self, steps, obs, tname):
        svc, env = self.svc, self.env
        rec = svc.recorder
        for st in steps:
            k = st[0]
            if k == 'in':
                self.do_in(st, obs, tname)
            elif k == 'out':
                self.do_out(st, obs, tname)
            elif k == 'rec':
                if rec is not None:
                    rec.record_data(st[1], st[2])
            elif k == 'play':
                if rec is not None:
                    try:
                        obs.append(['play', st[1], rec.play_data(st[1])])
                    except TapeRecorderException:
                        raise
            elif k == 'discard':
                env.run.fault('discard')
                if rec is not None:
                    rec.discard_recording()
            elif k == 'disable':
                env.run.fault('disable')
                if svc.disabled_at is None:
                    svc.disabled_at = svc.calls_begun
                if rec is not None:
                    rec.disable_recording()
            elif k == 'force':
                env.run.fault('force_sample')
                if rec is not None:
                    rec.force_sample_recording()
            elif k == 'raise':
                raise st[1]()
            elif k == 'interrupt':
                env.run.fault('interrupt')
                raise D.Interrupt()
            elif k == 'return':
                raise EarlyReturn()
            elif k == 'mut':
                target = getattr(svc, 'last_value', None)
                if target is not None and svc.mut_tape is not None:
                    if V.mutate_in_place(svc.mut_tape, target):
                        env.run.probe('service_mutated_value')
            elif k == 'sleep':
                if self.clock is not None:
                    self.clock.advance(st[1])
                svc.slept += st[1]
            elif k == 'spawn':
                self.do_spawn(st, obs, tname)

    def do_spawn(self, st, obs, tname):
        svc = self.svc
        started = []
        for n, body in enumerate(st[1]):
            tobs = []
            name = '%s.w%d' % (tname, len(svc.threads))

            def target(body=body, tobs=tobs, name=name):
                try:
                    self.run_steps(body, tobs, name)
                except TapeRecorderException as ex:
                    tobs.append(['thread-exc', type(ex).__name__])
            th = svc.thread_factory(target, name)
            svc.threads.append((name, th, tobs, st[2]))
            started.append((th, tobs))
            th.start()
        if not st[2]:
            for th, tobs in started:
                th.join()
            obs.append(['threads', [t[1] for t in started]])

    def do_in(self, st, obs, tname):
        svc, env = self.svc, self.env
        if getattr(env, 'disabled_in_body', False) and svc.disabled_at is None:
            svc.disabled_at = svc.calls_begun
        svc.calls_begun += 1
        ispec = svc.spec.inputs[st[1]]
        args, kwargs = ispec.pool[st[2] % len(ispec.pool)]
        dep = self.deps[st[3] % 2]
        fault = st[4]
        args = tuple(args)
        kwargs = dict(kwargs)
        if ispec.mutates_args:
            # the body modifies its arguments: every call gets its own argument objects
            args, kwargs = copy.deepcopy(args), copy.deepcopy(kwargs)
        call = self._begin(tname, fault=fault)
        if fault == 'key_unbuildable':
            if ispec.kind != 'property' and ispec.capture is None and ispec.npos:
                # an argument the key builder cannot serialize; the environment treats it as the pool call
                call['outcome_override'] = ispec.outcomes.get(
                    (resolved_alias(ispec, dep.name), model_captured(ispec, args, kwargs)))
                args = (D.Unserializable(st[2]),) + args[1:]
                env.run.fault('key_unbuildable')
            else:
                call['fault'] = fault = None
        if fault == 'unserializable_value':
            call['outcome_override'] = ('value', D.Unserializable(7))
            env.run.fault('unserializable_value')
        if fault == 'copy_fails':
            call['outcome_override'] = ('value', D.CopyFails(7))
            env.run.fault('copy_fails')
        if fault == 'raises_opaque':
            # the intercepted function raises an exception that cannot be copied or serialized: the caller gets exactly it
            call['outcome_override'] = ('raise', D.ErrOpaque)
            env.run.fault('raises_opaque')
        if getattr(env, 'copy_fails_everywhere', False):
            # (a value that cannot even be encoded: the copy fails and so does the save - nothing undecodable is stored)
            call['outcome_override'] = ('value', D.Unserializable(7))
            env.run.fault('copy_fails')
        call['args'] = (args, kwargs)
        note = None
        try:
            ret = call_input(dep, ispec, args, kwargs)
        except TapeRecorderException:
            raise
        except Exception as ex:
            svc.checks.append(CallCheck('in', ispec.alias, tname, call.get('bodies', 0), None,
                                        ex is call.get('raised'), call.get('args_identical'), origin_note(ex)))
            if isinstance(ex, D.ErrPayload):
                obs.append(['in', ispec.alias, 'raised', type(ex).__name__, copy.deepcopy(ex.payload)])
                svc.last_value = ex.payload       # the service may go on to modify what the error carried
            else:
                obs.append(['in', ispec.alias, 'raised', type(ex).__name__])
            return
        svc.checks.append(CallCheck('in', ispec.alias, tname, call.get('bodies', 0),
                                    call.get('returned_set', False) and ret is call.get('returned'), None,
                                    call.get('args_identical'), note))
        svc.last_value = ret
        if isinstance(ret, (D.Unserializable, D.CopyFails)):
            obs.append(['in', ispec.alias, 'opaque', type(ret).__name__])
        else:
            obs.append(['in', ispec.alias, 'value', ret if V.FLAVOUR['sharing'] else copy.deepcopy(ret)])

    def do_out(self, st, obs, tname):
        svc, env = self.svc, self.env
        if getattr(env, 'disabled_in_body', False) and svc.disabled_at is None:
            svc.disabled_at = svc.calls_begun
        svc.calls_begun += 1
        ospec = svc.spec.outputs[st[1]]
        args, kwargs = st[2]
        args = tuple(args)
        kwargs = dict(kwargs)
        fault = st[4]
        call = self._begin(tname, fault=fault, result=st[3])
        if fault == 'raises_opaque':
            call['result'] = ('raise', D.ErrOpaque)
            env.run.fault('raises_opaque')
        call['args'] = (args, kwargs)
        svc_sent = getattr(svc, 'sent', None)
        if svc_sent is not None:
            svc_sent.append((ospec.alias, args, kwargs))
        dep = self.deps[0]
        try:
            ret = call_output(dep, ospec, args, kwargs)
        except TapeRecorderException:
            raise
        except Exception as ex:
            svc.checks.append(CallCheck('out', ospec.alias, tname, call.get('bodies', 0), None,
                                        ex is call.get('raised'), call.get('args_identical'), origin_note(ex)))
            obs.append(['out', ospec.alias, 'raised', type(ex).__name__])
            return
        svc.checks.append(CallCheck('out', ospec.alias, tname, call.get('bodies', 0),
                                    call.get('returned_set', False) and ret is call.get('returned'), None,
                                    call.get('args_identical'), None))
        svc.last_value = ret
        if isinstance(ret, (D.Unserializable, D.CopyFails)):
            obs.append(['out', ospec.alias, 'opaque', type(ret).__name__])
        else:
            obs.append(['out', ospec.alias, 'value', ret if V.FLAVOUR['sharing'] else copy.deepcopy(ret)])


# ---------------------------------------------------------------------------------------------- thread factories
class InlineThread(object):
    """Runs the target at start(): the sequential execution used for twins and for single-threaded engines."""

    def __init__(self, target, name):
        self.target = target
        self.name = name

    def start(self):
        self.target()

    def join(self, timeout=None):
        pass


def inline_thread_factory(target, name):
    return InlineThread(target, name)


def sim_thread_factory(sim):
    from simkit.sim import SimThread

    class T(SimThread):
        _sim = sim

    def factory(target, name):
        return T(target=target, name=name)
    return factory


# ---------------------------------------------------------------------------------------------- spy cassette
class SpyCassette(object):
    """Delegating wrapper around a real cassette that journals finalisation calls and can make save fail.
    State is kept here, never on recordings (cassettes serialise the whole recording object)."""

    def __init__(self, inner, run=None):
        self.inner = inner
        self.run = run
        self.calls = []              # ('create'|'save'|'abort'|'get'..., recording id)
        self.save_raises = False
        self.abort_raises = False
        self.created = {}

    def create_new_recording(self, category):
        r = self.inner.create_new_recording(category)
        self.calls.append(('create', r.id))
        self.created[r.id] = r
        return r

    def save_recording(self, recording):
        self.calls.append(('save', recording.id))
        if self.save_raises:
            if self.run is not None:
                self.run.fault('save_raises')
            raise IOError('injected: storage fails on save')
        return self.inner.save_recording(recording)

    def abort_recording(self, recording=None):
        self.calls.append(('abort', recording.id))
        if self.abort_raises:
            if self.run is not None:
                self.run.fault('abort_raises')
            raise IOError('injected: storage fails on abort')
        return self.inner.abort_recording(recording)

    def get_recording(self, recording_id):
        self.calls.append(('get', recording_id))
        return self.inner.get_recording(recording_id)

    def __getattr__(self, name):
        return getattr(self.inner, name)

    def mutations(self):
        return [c for c in self.calls if c[0] in ('create', 'save', 'abort')]


def origin_note(ex):
    """(exception class name, innermost frame inside the repository under test, repr) for signatures."""
    import os
    import traceback
    from simkit import REPO
    tb = traceback.extract_tb(ex.__traceback__)
    where = [f for f in tb if os.path.realpath(f.filename).startswith(os.path.realpath(REPO) + os.sep)]
    loc = '%s.%s' % (os.path.basename(where[-1].filename)[:-3], where[-1].name) if where else 'service'
    return (type(ex).__name__, loc, repr(ex))


def exc_kind(ex):
    return type(ex).__name__


# ---------------------------------------------------------------------------------------------- record / replay
class Outcome(object):
    """How a call of the operation (or of play()) ended."""

    def __init__(self, kind, value=None, exc=None):
        self.kind = kind          # 'return' | 'raise' | 'interrupt'
        self.value = value
        self.exc = exc

    def canon(self):
        if self.kind == 'return':
            return ('return', V.canon(self.value))
        return (self.kind, type(self.exc).__name__)

    def __repr__(self):
        if self.kind == 'return':
            return 'return %s' % V.short(self.value, 200)
        return '%s %r' % (self.kind, self.exc)


def call_outcome(fn):
    try:
        return Outcome('return', fn())
    except Exception as ex:
        return Outcome('raise', exc=ex)
    except D.Interrupt as ex:
        return Outcome('interrupt', exc=ex)


class Recorded(object):
    def __init__(self):
        self.outcome = None
        self.svc = None
        self.env = None
        self.spy = None
        self.recorder = None
        self.rec_id = None
        self.saved = False


def record_once(spec, run, cassette, rseed=0, thread_factory=None, recorder=None, sim=None, sent=False, service=None, within_except=False):
    """Live run of the service with recording enabled over `cassette` (wrapped in a spy)."""
    out = Recorded()
    if recorder is not None and isinstance(recorder.tape_cassette, SpyCassette):
        out.spy = recorder.tape_cassette
    else:
        out.spy = cassette if isinstance(cassette, SpyCassette) else SpyCassette(cassette, run)
    out.recorder = recorder or TapeRecorder(out.spy, random_seed=rseed)
    out.recorder.tape_cassette = out.spy
    out.recorder.enable_recording()
    if service is not None:
        # the same decorated classes are invoked again (state kept by the decorators shows up here)
        out.svc, out.env = service, service.env
        out.svc.checks, out.svc.last_result, out.svc.last_raised, out.svc.extractor_calls, out.svc.slept = [], None, None, 0, 0.0
    else:
        out.env = Env(spec, run, out.recorder)
        out.svc = Service(spec, out.env, out.recorder, thread_factory=thread_factory or inline_thread_factory)
    if sent:
        out.svc.sent = []
    before = len(out.spy.calls)
    if within_except:
        # the caller invokes the operation while it is handling another exception (fallback / retry code)
        try:
            raise KeyError('the caller is handling this while it invokes the operation')
        except KeyError:
            out.outcome = call_outcome(out.svc.invoke)
    else:
        out.outcome = call_outcome(out.svc.invoke)
    new = out.spy.calls[before:]
    created = [c[1] for c in new if c[0] == 'create']
    out.rec_id = created[-1] if created else None
    out.saved = any(c == ('save', out.rec_id) for c in new)
    return out


class Replayed(object):
    def __init__(self):
        self.outcome = None       # outcome of recorder.play(): return Playback | raise
        self.op_outcome = None    # outcome of the operation inside the playback function
        self.svc = None
        self.env = None
        self.recorder = None
        self.playback = None


def replay_once(spec, run, cassette, rec_id, thread_factory=None, recorder=None, overrides=None, enable_recording=False,
                sent=False, join_threads=True):
    out = Replayed()
    out.recorder = recorder or TapeRecorder(cassette)
    if enable_recording:
        out.recorder.enable_recording()
    out.env = Env(spec, run, out.recorder)
    out.env.tripwire = True
    out.svc = Service(spec, out.env, out.recorder, thread_factory=thread_factory or inline_thread_factory, overrides=overrides)
    if sent:
        out.svc.sent = []
    holder = {}

    def playback_function(recording):
        holder['recording'] = recording
        try:
            out.svc.invoke()
        finally:
            if join_threads:
                for name, th, tobs, strag in out.svc.threads:
                    th.join()

    out.outcome = call_outcome(lambda: out.recorder.play(rec_id, playback_function))
    if out.outcome.kind == 'return':
        out.playback = out.outcome.value
    if out.svc.last_raised is not None:
        out.op_outcome = Outcome('raise' if isinstance(out.svc.last_raised, Exception) else 'interrupt', exc=out.svc.last_raised)
    elif out.svc.last_result is not None:
        out.op_outcome = Outcome('return', out.svc.last_result)
    return out


def recording_in_faithful_domain(rec):
    """The live recording object's content must round-trip through the pinned serializer as one document; the
    properties are conditional on that (serializer limits are not playback defects)."""
    r = rec.spy.created.get(rec.rec_id)
    if r is None:
        return True
    inner = getattr(r, 'wrapped_recording', r)
    return V.doc_faithful({'d': dict(inner.recording_data), 'm': dict(inner.recording_metadata)})


def live_recorded_outputs(rec):
    """{output key: canon(value)} of the live recording object as the recorder filled it - no serializer involved, so
    it can be compared with what the code sent even when the document as a whole is outside the faithful domain."""
    r = rec.spy.created.get(rec.rec_id)
    if r is None:
        return None
    inner = getattr(r, 'wrapped_recording', r)
    out = {}
    for k, v in list(inner.recording_data.items()):
        if k.startswith('output:') and not k.endswith('result'):
            try:
                out[k] = V.canon(v)
            except RecursionError:
                out[k] = ('uncanonical',)
    return out


def failing_replay(spec, run, tape, cassette, rec_id, recorder, thread_factory=None):
    """History step: a replay on `recorder` that legitimately fails with a missing key after some calls were
    answered (the replayed code asks for an input that was never recorded)."""
    s2 = copy.copy(spec)
    s2.inputs = list(spec.inputs)
    extra = InputSpec(len(s2.inputs), alias='never_recorded_input')
    extra.npos = 0
    extra.pool = [((), {})]
    s2.inputs.append(extra)
    top = [n for n, st in enumerate(spec.body)]
    pos = tape.draw(len(top) + 1)
    s2.body = [list(st) for st in spec.body[:pos]] + [['in', extra.idx, 0, 0, None]] + [list(st) for st in spec.body[pos:]]
    rep = replay_once(s2, run, cassette, rec_id, recorder=recorder, thread_factory=thread_factory)
    run.probe('history_failed_replay_first')
    return rep


def outputs_as_map(outputs):
    """list of Output(key, value) -> ({key: canon(value)}, duplicate keys)."""
    m, dups = {}, []
    for o in outputs:
        if o.key in m:
            dups.append(o.key)
        m[o.key] = V.canon(o.value)
    return m, dups


# ---------------------------------------------------------------------------------------------- fault placement
STEP_FAULTS_IN = ['key_unbuildable', 'handler_raises', 'discard_in_body', 'interrupt_in_body', 'discard_before',
                  'raise_before', 'interrupt_before', 'force_before', 'force_in_body', 'copy_fails', 'unserializable_value',
                  'fallback_raises', 'resolver_raises']
STEP_FAULTS_OUT = ['handler_raises', 'discard_in_body', 'interrupt_in_body', 'discard_before', 'raise_before',
                   'interrupt_before', 'force_before', 'force_in_body', 'unserializable_value', 'unserializable_argument']


def locate(steps, target):
    for n, st in enumerate(steps):
        if st is target:
            return steps, n
        if st[0] == 'spawn':
            for b in st[1]:
                r = locate(b, target)
                if r is not None:
                    return r
    return None


def place_fault(spec, st, kind, run):
    """Arm fault `kind` at interception step `st` (adjusting the spec where the fault needs a handler etc.)."""
    if kind.endswith('_before'):
        lst, n = locate(spec.body, st)
        lst.insert(n, {'discard_before': ['discard'], 'force_before': ['force'], 'raise_before': ['raise', D.ErrB],
                       'interrupt_before': ['interrupt']}[kind])
        return kind
    if kind in ('handler_raises', 'disable_in_body_handler_raises', 'disable_in_handler', 'discard_in_body_handler_raises'):
        (spec.inputs if st[0] == 'in' else spec.outputs)[st[1]].handler = True
    if kind == 'resolver_raises':
        ispec = spec.inputs[st[1]]
        if ispec.kind == 'static':
            return None
        ispec.resolver = True
        for key in list(ispec.outcomes):
            for dep in ('d0', 'd1'):
                ispec.outcomes.setdefault((ispec.alias + '.' + dep, key[1]), ispec.outcomes[key])
    if kind == 'unserializable_argument' and st[0] == 'out':
        args, kwargs = st[2]
        st[2] = ((D.Unserializable(5),) + tuple(args), kwargs)
        run.fault('unserializable_argument')
        return kind
    if kind == 'fallback_raises':
        # the key of the main alias is built, the fallback alias function then fails for this call
        ispec = spec.inputs[st[1]]
        if ispec.fallback is None or ispec.fallback[0] != 'fn':
            ispec.fallback = ('fn', ['old_' + ispec.alias])
    if kind == 'copy_fails':
        spec.op.params = dict(spec.op.params or {}, copy_data_on_intercepion=True)
    if kind == 'unserializable_value' and st[0] == 'out':
        st[3] = ('value', D.Unserializable(3))
        run.fault('unserializable_value')
        return kind
    st[4] = kind
    return kind


class ScriptedRandom(object):
    """Stands in for TapeRecorder._random / S3TapeCassette._random: returns scripted draws and counts them."""

    def __init__(self, values, default=0.5):
        self.values = list(values)
        self.default = default
        self.draws = 0

    def random(self):
        self.draws += 1
        if self.values:
            return self.values.pop(0)
        return self.default
