"""C14 Metadata filter matching is total and means what is documented (DESIGN.md section 4, C14).

Honest scope: the matcher is a pure function; nothing is scheduled and nothing fails.  What is decided with this
family is the system-level statement - one odd recording must not abort a lookup - as a stored history read back
through the three real cassettes' decoders, plus the direct matcher call the lookup oracle needs anyway."""
import copy
import sys

from simkit import seams
from simkit import values as V
from simkit.core import Run
from simkit.runner import safe_run_tape
from simkit.tape import Tape

from playback.tape_cassette import TapeCassette

from engines import cassettes as C
from engines import storage as S
from engines import recplay as R

PROP = 'C14'

ATOMS = [None, True, False, 0, 1, 1.5, 'a', 'a*', '*', '', {'x': 1}, u'Z\u00fc "q" \\n']      # the last one: text JSON stores escaped
OPS = ['=', '<', '<=', '>', '>=', '!=']
ABSENT = ('absent',)
VALUES = [ABSENT, None, True, False, 0, 1, 2, 1.5, '', 'a', 'ab', 'b', [1], ['a'], {'x': 1}, {}, u'Z\u00fc "q" \\n']


def all_filters():
    out = []
    for a in ATOMS:
        out.append(a)
    for a in ATOMS:
        out.append([a])
        out.append([a, None])
        out.append(['zzz', a])
    for op in OPS:
        for a in ATOMS:
            out.append({'operator': op, 'value': a})
    return out


FILTERS = all_filters()
CHUNK = 10
NCHUNKS = (len(FILTERS) + CHUNK - 1) // CHUNK

META = {
    'engine': 'storage',
    'level': 'exploration',
    'level_text': ('The finite universe (12 filter atoms, plain / in three list shapes / in each of the operator objects = < <= > >= and an unknown '
                   'operator: %d filters) x (metadata value absent or one of 16 JSON values) is enumerated completely: every pair through the matcher '
                   'directly and every filter as a lookup over the 17 stored recordings on each of the three real cassettes (S3 matches JSON text, the '
                   'others decoded objects); beyond it seeded random nested filters and metadata, two-key conjunctions.  A reference matcher with '
                   'explicit don\'t-care cells is the oracle; every answer is asked twice. Also: two threads matching at the same time under the line-level scheduler, with separate and with the very same filter object.') % len(FILTERS),
    'level_note': 'Trusted: model_match (engines/storage.py) as the reading of the documentation; don\'t-care cells only require "returns a bool, does not raise".',
    'rule': ('evaluation = one (filter, value) pair through the matcher, or one filter as a lookup on one cassette (table part), or one random '
             '(filter, metadata) case; non-trivial = the filter is not a plain equality against a present value of the same type; distinct = distinct '
             'event-log digest. exhaustive=true refers to the table.'),
    'exhaustive_part': '%d filters x 17 metadata values through the matcher and through lookups on three cassettes' % len(FILTERS),
    'table_chunks': {'quick': NCHUNKS, 'thorough': NCHUNKS},
    'assumptions': ['metadata values are JSON-native', 'documentation-silent cells (see model_match) are don\'t-care'],
    'components_real': ['TapeCassette.match_against_recorded_metadata / _match_metadata_value / _operator_filter', 'iter_recording_ids of the three cassettes',
                        'S3 content filter on JSON-decoded metadata'],
    'components_stub': ['S3 bucket', 'uuid / clock'],
    'budgets': {'quick': {'seconds': 20}, 'thorough': {'seconds': 300}},
    'required_probes': {'quick': ['table_filter'], 'thorough': ['table_filter', 'random_case', 'conjunction', 'concurrent_matching', 'concurrent_matching_same_filter_object']},
}


def ask(run, filt, md, where):
    """Ask the real matcher twice; returns bool or None when it raised / misbehaved (violation recorded)."""
    answers = []
    for _ in range(2):
        try:
            a = TapeCassette.match_against_recorded_metadata(copy.deepcopy(filt), copy.deepcopy(md))
        except Exception as ex:
            o = R.origin_note(ex)
            run.violate('never_raises', 'matcher-raised:%s@%s' % (o[0], o[1]), '%s: matching filter %s against metadata %s raised %r' % (where, V.short(filt, 150), V.short(md, 150), ex))
            return None
        answers.append(a)
    if not all(isinstance(a, bool) for a in answers):
        run.violate('yes_no_answer', 'not-a-bool', '%s: matcher returned %r for filter %s metadata %s' % (where, answers[0], V.short(filt, 150), V.short(md, 150)))
        return None
    run.check(answers[0] == answers[1], 'deterministic', 'two-answers', '%s: two different answers for the same question' % where)
    return answers[0]


def expected(filt_dict, md):
    vs = [S.model_match(f, md.get(k), k in md) for k, f in filt_dict.items()]
    if any(v is False for v in vs):
        return False
    if any(v is None for v in vs):
        return None
    return True


def cell(filt):
    if isinstance(filt, list):
        return 'list'
    if S.is_operator(filt):
        return 'operator'
    if filt is None:
        return 'none'
    if isinstance(filt, str):
        return 'pattern'
    return 'plain'


def check_direct(run, filt_dict, md, where):
    got = ask(run, filt_dict, md, where)
    exp = expected(filt_dict, md)
    if got is not None and exp is not None and got != exp:
        kinds = '+'.join(sorted(set(cell(f) for f in filt_dict.values())))
        run.violate('means_what_is_documented', 'wrong-answer:%s:%s' % (kinds, 'match' if got else 'no-match'),
                    '%s: filter %s against metadata %s answered %s, documented meaning gives %s' % (where, V.short(filt_dict, 150), V.short(md, 150), got, exp))


def table_filter(tape, clock):
    run = Run(PROP)
    idx = tape.draw(len(FILTERS))
    filt = FILTERS[idx]
    run.probe('table_filter')
    run.nontrivial = True
    run.subruns = 0
    run.say('filter #%d %s against %d metadata values, directly and as a lookup on three cassettes' % (idx, V.short(filt, 100), len(VALUES)))
    mds = []
    for v in VALUES:
        mds.append({'other': 1} if v is ABSENT else {'key': v, 'other': 1})
    for md in mds:
        run.subruns += 1
        check_direct(run, {'key': filt}, md, 'direct')
    # as a stored history: one recording per metadata value on every cassette
    for kind in C.KINDS:
        store = C.Store(kind, key_prefix='a', clock=clock, page_size=tape.choice([1000, 2]))
        try:
            cas = store.open()
            ids = []
            for md in mds:
                r = cas.create_new_recording('OpA')
                r.set_data('k', 1)
                r.add_metadata(copy.deepcopy(md))
                cas.save_recording(r)
                ids.append(r.id)
            run.subruns += 1
            try:
                got = list(store.open(read_only=True).iter_recording_ids('OpA', metadata={'key': copy.deepcopy(filt)}))
            except Exception as ex:
                o = R.origin_note(ex)
                run.violate('lookup_not_aborted', 'lookup-raised:%s:%s@%s' % (kind, o[0], o[1]),
                            'lookup with filter %s over recordings with heterogeneous metadata raised %r on the %s cassette' % (V.short(filt, 100), ex, kind))
                continue
            for rid, md in zip(ids, mds):
                exp = expected({'key': filt}, md)
                if exp is not None and (rid in got) != exp:
                    run.violate('means_what_is_documented', 'lookup-wrong:%s:%s:%s' % (kind, cell(filt), 'match' if rid in got else 'no-match'),
                                'lookup on %s with filter %s: recording with metadata %s %s, documented meaning says %s' % (
                                    kind, V.short(filt, 100), V.short(md, 100), 'returned' if rid in got else 'not returned', exp))
        finally:
            store.close()
    run.ev('table', idx, [v.signature for v in run.violations])
    return run


def gen_filter_value(tape, depth=2):
    k = tape.draw(7)
    if depth > 0 and k == 5:
        return [gen_filter_value(tape, depth - 1) for _ in range(tape.draw(4))]
    if k == 6:
        return {'operator': tape.choice(OPS), 'value': S.gen_json_value(tape, 1)}
    if k == 4:
        return tape.choice(['a*', '*b', '?', '[a-c]*', '*', 'ab', ''])
    return S.gen_json_value(tape, 1)


def random_case(tape):
    run = Run(PROP)
    run.probe('random_case')
    nkeys = 1 + tape.draw(3)
    filt = dict((tape.choice(S.META_KEYS), gen_filter_value(tape)) for _ in range(nkeys))
    md = S.gen_metadata(tape)
    if len(filt) > 1:
        run.probe('conjunction')
    run.say('filter %s metadata %s' % (V.short(filt, 200), V.short(md, 200)))
    check_direct(run, filt, md, 'random')
    run.nontrivial = any(cell(f) != 'plain' or k not in md for k, f in filt.items())
    run.ev('random', V.srepr(filt), V.srepr(md), [v.signature for v in run.violations])
    return run


def concurrent_matching(tape):
    """Two threads (two lookups served by one process) match filters at the same time under the seeded line-level
    scheduler; every answer must still be the documented one."""
    import os
    from simkit import REPO
    from simkit.sim import Sim, SimDeadlock
    run = Run(PROP)
    run.probe('concurrent_matching')
    sim = Sim(tape, run, preempt_p=tape.choice([0.1, 0.3, 0.6]), target_files=[os.path.join(REPO, 'playback', 'tape_cassette.py')], max_steps=100000)
    jobs = []
    for t in range(2):
        cases = []
        for _ in range(2 + tape.draw(4)):
            filt = {'name': tape.choice(['a*', '*b', '?', '[a-c]*', 'ab', 'a', 'b*', '*'])} if tape.draw(3) else dict((tape.choice(S.META_KEYS), gen_filter_value(tape)) for _ in range(1 + tape.draw(2)))
            md = S.gen_metadata(tape)
            if tape.draw(2):
                md['name'] = tape.choice(['a', 'ab', 'abc', 'b', 'cab', ''])
            cases.append((filt, md))
        jobs.append(cases)
    # the two lookups may be given the very same filter object (one lookup-properties object used by both threads)
    shared = tape.draw(2) == 1
    if shared:
        run.probe('concurrent_matching_same_filter_object')
        jobs[1] = [(filt, md2) for (filt, _), (_, md2) in zip(jobs[0], jobs[1] + jobs[0])]
        frozen = [V.canon(f) for f, _ in jobs[0]]
    results = {}

    def worker(t, cases):
        def body():
            out = []
            for filt, md in cases:
                try:
                    out.append(TapeCassette.match_against_recorded_metadata(filt if shared else copy.deepcopy(filt), copy.deepcopy(md)))
                except Exception as ex:
                    out.append(ex)
            results[t] = out
        return body

    def main():
        tasks = [sim.spawn(worker(t, cases), name='matcher%d' % t) for t, cases in enumerate(jobs)]
        for tk in tasks:
            sim.join(tk)
    try:
        sim.run_main(main)
    except SimDeadlock as ex:
        run.violate('never_raises', 'deadlock', str(ex))
        return run
    run.nontrivial = sim.switches > 2
    if shared:
        run.check(frozen == [V.canon(f) for f, _ in jobs[0]], 'means_what_is_documented', 'filter-object-modified-by-matching',
                  'matching changed the filter object it was given')
    for t, cases in enumerate(jobs):
        for (filt, md), got in zip(cases, results.get(t, [])):
            exp = expected(filt, md)
            if isinstance(got, Exception):
                o = R.origin_note(got)
                run.violate('never_raises', 'matcher-raised-concurrently:%s@%s' % (o[0], o[1]), 'two threads matching at the same time: filter %s metadata %s raised %r' % (V.short(filt, 100), V.short(md, 100), got))
            elif exp is not None and got != exp:
                run.violate('means_what_is_documented', 'wrong-answer-under-concurrency', 'two threads matching at the same time: filter %s metadata %s answered %s, documented meaning gives %s' % (
                    V.short(filt, 100), V.short(md, 100), got, exp))
    run.ev('concurrent', [[(V.srepr(f), V.srepr(m)) for f, m in c] for c in jobs], sim.switches, [v.signature for v in run.violations])
    return run


def run_tape(tape):
    with seams.deterministic(tape) as clock:
        mode = tape.draw(3)
        if mode == 2:
            return concurrent_matching(tape)
        if mode == 1:
            return table_filter(tape, clock)
        return random_case(tape)


def run_index(i, seed, tier, emit):
    mod = sys.modules[__name__]
    if i < NCHUNKS:
        for idx in range(i * CHUNK, min(len(FILTERS), (i + 1) * CHUNK)):
            t = Tape(seed, prefix=[1, idx])
            emit(safe_run_tape(mod, t), t)
        return
    for k in range(200):
        t = Tape(seed + k, prefix=[0 if k % 5 else 2])
        emit(safe_run_tape(mod, t), t)
