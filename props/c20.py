"""C20 File interception preserves file bytes and honours the size limit (DESIGN.md section 4, C20).

Scope note: mostly an input property; the simulator contributes the I/O seam (observation of opens, stat / read
faults) and the full trip recorder -> cassette -> restart -> replay."""
import builtins
import os
import shutil
import tempfile

from simkit import seams
from simkit.core import Run

from playback.interception.files import file_interception as FI
from playback.interception.files.input_file_interception import InputInterceptionFileDataHandler
from playback.interception.files.output_file_interception import OutputInterceptionFileDataHandler
from playback.tape_recorder import TapeRecorder, CapturedArg

from engines import recplay as R
from engines import cassettes as C

PROP = 'C20'
PLACEHOLDER = b'above interception limit'
MB = 1024.0 * 1024.0

META = {
    'engine': 'recplay',
    'level': 'exploration',
    'level_text': ('Seeded file contents (empty, all 256 byte values, newlines, exactly the placeholder text, sizes limit-1 / limit / limit+1 byte '
                   'for small limits expressed in MB, and a 1 MiB boundary through the environment variable) pass through a real service with '
                   'file data handlers on an input and an output, the real recorder, each cassette type, a restart, and a replay that names '
                   'another path; an open() / getsize() proxy on the file-interception module observes every open and injects read errors. Also: symbolic links as intercepted paths, reads failing after n bytes, stale files at the replayed path, the same path intercepted again with other bytes of equal length and mtime, an explicit limit of zero, files above 1 MiB below the limit, and two threads through one handler under the line-level scheduler. Two threads of the replayed operation restoring their files at the same time. Bare relative file names; a failing size check. The limit assigned to the handler attribute after construction; a keyword path while the configured index points at another argument.'),
    'level_note': 'Trusted: the open/os proxies bound to playback.interception.files.file_interception, scratch directory handling. No schedule dimension.',
    'rule': ('evaluation = one (content, limit, path convention, cassette) round trip; non-trivial = the file was at a limit boundary, binary, empty, '
             'equal to the placeholder or a read fault fired; distinct = distinct event-log digest.'),
    'assumptions': ['files do not change between the size check and the read (a growing file is reported as a probe only)'],
    'components_real': ['FileInterception, Input/OutputInterceptionFileDataHandler, InterceptedOutputFileHolder', 'TapeRecorder', 'all three cassettes'],
    'components_stub': ['open() and os.path.getsize seen by the file-interception module (delegating proxies)', 'S3 bucket'],
    'budgets': {'quick': {'seconds': 25}, 'thorough': {'seconds': 300}},
    'required_probes': {'thorough': ['size_at_limit', 'size_limit_plus_1', 'size_limit_minus_1', 'content_is_placeholder', 'binary_all_bytes', 'empty_file',
                                     'limit_from_environment', 'path_by_keyword', 'path_positional', 'read_fault', 'above_limit_not_opened', 'stale_file_at_replay_path', 'explicit_zero_limit', 'more_than_1MiB_below_limit', 'two_threads_one_handler', 'path_is_a_symbolic_link', 'read_fault_in_the_middle_of_the_file', 'same_path_again_same_length_same_mtime', 'two_threads_restore_at_the_same_time', 'bare_relative_file_names', 'size_check_fails']},
}


class OpenProxy(object):
    def __init__(self):
        self.opens = []
        self.fail_read_of = None
        self.fail_after = None        # None: open() itself fails; n: reads fail after n bytes

    def __call__(self, path, mode='r', *a, **k):
        self.opens.append((os.path.basename(str(path)), mode))
        if 'r' in mode and self.fail_read_of is not None and os.path.basename(str(path)) == self.fail_read_of:
            if self.fail_after is None:
                raise IOError('injected: cannot read %s' % path)
            return FailingReader(builtins.open(path, mode, *a, **k), self.fail_after)
        return builtins.open(path, mode, *a, **k)


class FailingReader(object):
    """A file whose reads fail (EIO) once `after` bytes have been delivered."""

    def __init__(self, f, after):
        self._f, self._left = f, after

    def read(self, n=-1):
        if n is None or n < 0 or n > self._left:
            self._f.read(self._left)
            raise IOError(5, 'injected: Input/output error')
        self._left -= n
        return self._f.read(n)

    def __iter__(self):
        raise IOError(5, 'injected: Input/output error')

    def __enter__(self):
        return self

    def __exit__(self, *exc):
        self._f.close()
        return False

    def __getattr__(self, name):
        return getattr(self._f, name)


class OsProxy(object):
    """`os` as seen by file_interception: getsize is observed, everything else is the real module."""

    def __init__(self):
        self.stats = []
        self.fail_stat_of = None
        proxy = self

        class PathProxy(object):
            def getsize(self, p):
                proxy.stats.append(os.path.basename(str(p)))
                if proxy.fail_stat_of is not None and os.path.basename(str(p)) == proxy.fail_stat_of:
                    raise OSError(116, 'injected: Stale file handle')
                return os.path.getsize(p)

            def __getattr__(self, name):
                return getattr(os.path, name)
        self.path = PathProxy()

    def __getattr__(self, name):
        return getattr(os, name)


def gen_content(tape, limit_bytes):
    kind = tape.draw(10)
    if kind == 0:
        return b'plain ascii sentence', 'ascii'
    if kind == 1:
        return b'', 'empty_file'
    if kind == 2:
        return bytes(range(256)) * (1 + tape.draw(3)), 'binary_all_bytes'
    if kind == 3:
        return b'line1\nline2\r\nline3\n\n', 'newlines'
    if kind == 4:
        return PLACEHOLDER, 'content_is_placeholder'
    if kind == 5:
        return bytes((tape.draw(256) for _ in range(limit_bytes - 1))) if limit_bytes >= 1 else b'', 'size_limit_minus_1'
    if kind == 6:
        return bytes((tape.draw(256) for _ in range(limit_bytes))), 'size_at_limit'
    if kind == 7:
        return bytes((tape.draw(256) for _ in range(limit_bytes + 1))), 'size_limit_plus_1'
    if kind == 8:
        return bytes((tape.draw(256) for _ in range(limit_bytes + 1 + tape.draw(50)))), 'size_above_limit'
    return bytes((tape.draw(256) for _ in range(tape.draw(64)))), 'random_bytes'


def run_tape(tape):
    with seams.deterministic(tape) as clock:
        scratch = tempfile.mkdtemp(prefix='pbverif-c20-', dir=C.SCRATCH)
        oproxy, osproxy = OpenProxy(), OsProxy()
        old_env = os.environ.get('PLAYBACK_INTERCEPTED_FILE_SIZE_LIMIT')
        try:
            with seams.rebind([('playback.interception.files.file_interception', 'open', oproxy),
                               ('playback.interception.files.file_interception', 'os', osproxy),
                               ('playback.interception.files.input_file_interception', 'open', oproxy)]):
                return _run(tape, clock, scratch, oproxy, osproxy)
        finally:
            if old_env is None:
                os.environ.pop('PLAYBACK_INTERCEPTED_FILE_SIZE_LIMIT', None)
            else:
                os.environ['PLAYBACK_INTERCEPTED_FILE_SIZE_LIMIT'] = old_env
            shutil.rmtree(scratch, ignore_errors=True)
            for m in ('playback.interception.files.input_file_interception',):
                import importlib
                mod = importlib.import_module(m)
                if 'open' in mod.__dict__ and not callable(getattr(builtins, 'open', None)):
                    pass


def threaded_case(tape, clock, scratch, oproxy, osproxy):
    """Two worker threads of one operation fetch different files through the same decorated function (one shared
    handler object), under the seeded line-level scheduler."""
    from simkit import REPO
    from simkit.sim import Sim, SimDeadlock
    run = Run(PROP)
    run.probe('two_threads_one_handler')
    limit_bytes = tape.choice([7, 24, 100])
    contents = {}
    for key in ('ka', 'kb'):
        c, label = gen_content(tape, limit_bytes)
        contents[key] = c if c != contents.get('ka') else c + b'!'
    store = C.gen_store(tape, clock)
    sim = Sim(tape, run, preempt_p=tape.choice([0.1, 0.3, 0.6]), target_prefixes=[os.path.join(REPO, 'playback', 'interception')], max_steps=60000)
    run.say('two threads, limit %d bytes, file sizes %s, cassette %s' % (limit_bytes, dict((k, len(v)) for k, v in contents.items()), store.describe()))
    run.ev('threaded', limit_bytes, sorted((k, len(v)) for k, v in contents.items()), store.describe())
    try:
        phase = {'n': 0}

        def build(recorder, factory):
            handler = InputInterceptionFileDataHandler(2, 'file_path', limit_bytes / MB)
            seen = {}

            class Svc(object):
                @recorder.operation()
                def execute(self):
                    phase['n'] += 1
                    n = phase['n']

                    def work(key):
                        p = os.path.join(scratch, 'in-%d-%s.bin' % (n, key))
                        got = self.fetch(key, p)
                        with builtins.open(got, 'rb') as f:
                            seen[key] = f.read()
                    ths = [factory(lambda key=key: work(key), 'w-' + key) for key in ('ka', 'kb')]
                    for t in ths:
                        t.start()
                    for t in ths:
                        t.join()
                    return sorted(seen)

                @recorder.intercept_input('fetch', data_handler=handler, capture_args=[CapturedArg(1, 'key')])
                def fetch(self, key, file_path):
                    with builtins.open(file_path, 'wb') as f:
                        f.write(contents[key])
                    return file_path
            R.D.register('Svc', Svc)
            return Svc, seen
        spy = R.SpyCassette(store.open(), run)
        recorder = TapeRecorder(spy)
        recorder.enable_recording()
        Svc, seen = build(recorder, R.sim_thread_factory(sim))
        try:
            out = sim.run_main(lambda: R.call_outcome(lambda: Svc().execute()))
        except SimDeadlock as ex:
            run.violate('service_unaffected', 'deadlock', str(ex))
            return run
        run.nontrivial = sim.switches > 2
        run.check(out.kind == 'return' and seen == contents, 'service_unaffected', 'service-affected', lambda: 'recording changed what the service read: %r' % (out,))
        saved = [c[1] for c in spy.calls if c[0] == 'save']
        if not saved:
            run.violate('saved', 'not-saved', 'recording not saved: %s' % (spy.calls,))
            return run
        for key in contents:
            if len(contents[key]) > limit_bytes:
                ro = [o for o in oproxy.opens if o == ('in-1-%s.bin' % key, 'rb')]
                run.check(not ro, 'above_limit_never_read', 'above-limit-input-read', lambda: 'file of %s (%d bytes, limit %d) was opened for reading' % (key, len(contents[key]), limit_bytes))
        rep_recorder = TapeRecorder(store.open(read_only=True))
        if tape.draw(2) == 1:
            # the replayed operation restores its two files from two threads at the same time, into one directory
            run.probe('two_threads_restore_at_the_same_time')
            sim2 = Sim(tape, run, preempt_p=tape.choice([0.1, 0.3, 0.6]), target_prefixes=[os.path.join(REPO, 'playback', 'interception')], max_steps=60000)
            Svc2, seen2 = build(rep_recorder, R.sim_thread_factory(sim2))
            try:
                pb = sim2.run_main(lambda: R.call_outcome(lambda: rep_recorder.play(saved[-1], lambda recording: Svc2().execute())))
            except SimDeadlock as ex:
                run.violate('replay_completes', 'deadlock', str(ex))
                return run
        else:
            Svc2, seen2 = build(rep_recorder, R.inline_thread_factory)
            pb = R.call_outcome(lambda: rep_recorder.play(saved[-1], lambda recording: Svc2().execute()))
        if pb.kind != 'return':
            run.violate('replay_completes', 'play-raised:%s' % type(pb.exc).__name__, 'play raised %r' % (pb.exc,))
            return run
        for key in contents:
            exp = PLACEHOLDER if len(contents[key]) > limit_bytes else contents[key]
            if seen2.get(key) != exp:
                run.violate('input_file_restored', 'input-bytes-differ:concurrent-calls', 'file of call %s restored as %r..., expected %r... (two threads used the handler at the same time)' % (
                    key, (seen2.get(key) or b'')[:20], exp[:20]))
    finally:
        store.close()
    return run


def _run(tape, clock, scratch, oproxy, osproxy):
    if tape.draw(6) == 5:
        return threaded_case(tape, clock, scratch, oproxy, osproxy)
    run = Run(PROP)
    big = tape.draw(12) == 11          # 1 MiB boundary through the environment variable
    limit_mode = 'env' if big else tape.choice(['arg', 'arg', 'env0', 'none', 'arg0', 'attr'])
    big_under_limit = big and tape.draw(2) == 1      # more than 1 MiB, below a 2 MB limit: recorded and restored in full
    limit_bytes = (1 << 20) if big else tape.choice([1, 2, 7, 24, 100, 1000])
    by_keyword = bool(tape.draw(2))
    fault = tape.draw(8) == 7
    twice = tape.draw(3) == 2          # the same paths are intercepted a second time with other bytes of the same length and the same mtime
    relative = tape.draw(4) == 3       # the service names its files by bare relative names (its working directory is the scratch directory)
    via_link = tape.draw(4) == 3       # the intercepted paths are symbolic links to the files (a blob cache, a "current" link)
    # a path given by keyword wins over the positional index, whatever the index points at in that call (another argument, nothing)
    in_index = tape.choice([2, 2, 1, -1, 0]) if by_keyword else 2
    if in_index != 2:
        run.probe('keyword_path_with_another_argument_at_the_index')
    os.environ.pop('PLAYBACK_INTERCEPTED_FILE_SIZE_LIMIT', None)
    if limit_mode == 'arg':
        limit_arg = limit_bytes / MB
    elif limit_mode == 'attr':
        # the handler is built with its default limit; the public attribute is assigned afterwards (the limit in force when a
        # file is intercepted is the handler's limit at that moment)
        limit_arg = None
        run.probe('limit_assigned_after_construction')
    elif limit_mode == 'arg0':
        limit_arg, limit_bytes = tape.choice([0, 0.0]), 0     # an explicit limit of zero: every non-empty file is above it
        if tape.draw(2):
            os.environ['PLAYBACK_INTERCEPTED_FILE_SIZE_LIMIT'] = '5'
        run.probe('explicit_zero_limit')
    elif limit_mode == 'env':
        os.environ['PLAYBACK_INTERCEPTED_FILE_SIZE_LIMIT'] = '2' if big_under_limit else '1'
        limit_arg, limit_bytes = None, (2 << 20) if big_under_limit else (1 << 20)
        run.probe('limit_from_environment')
    elif limit_mode == 'env0':
        os.environ['PLAYBACK_INTERCEPTED_FILE_SIZE_LIMIT'] = '0.9' if tape.draw(2) else '0'
        limit_arg, limit_bytes = None, 0
        run.probe('limit_from_environment')
    else:
        limit_arg, limit_bytes = None, 500 << 20
    if big_under_limit:
        n = (1 << 20) + tape.choice([1, 2, 3, 1000, 65536])
        in_content, label = bytes(bytearray((i * 13 + n) & 0xff for i in range(n))), 'more_than_1MiB_below_limit'
        out_content, label2 = in_content[:n - 1], 'more_than_1MiB_below_limit'
    elif big:
        k = tape.draw(3)
        n = (1 << 20) - 1 + k
        in_content, label = bytes(bytearray((i * 7 + k) & 0xff for i in range(n))), ['size_limit_minus_1', 'size_at_limit', 'size_limit_plus_1'][k]
        out_content, label2 = b'small', 'ascii'
    else:
        in_content, label = gen_content(tape, min(limit_bytes, 2000))
        out_content, label2 = gen_content(tape, min(limit_bytes, 2000))
    run.probe(label)
    run.probe(label2)
    run.probe('path_by_keyword' if by_keyword else 'path_positional')
    if via_link:
        run.probe('path_is_a_symbolic_link')
    if big:
        twice = False
    if twice:
        run.probe('same_path_again_same_length_same_mtime')
    in_content2 = bytes(bytearray((b ^ 0x33) for b in in_content))
    out_content2 = bytes(bytearray((b ^ 0x55) for b in out_content))
    MTIME = 1577880000
    in_above = len(in_content) > limit_bytes
    out_above = len(out_content) > limit_bytes
    store = C.gen_store(tape, clock)
    run.say('limit=%s (%d bytes) input file %s (%d bytes) output file %s (%d bytes) path by %s cassette=%s read fault=%s' % (
        limit_mode, limit_bytes, label, len(in_content), label2, len(out_content), 'keyword' if by_keyword else 'position', store.describe(), fault))
    run.ev('case', limit_mode, limit_bytes, label, len(in_content), label2, len(out_content), by_keyword, store.describe(), fault)
    old_cwd = os.getcwd()
    try:
        if relative:
            os.chdir(scratch)
            run.probe('bare_relative_file_names')
        phase = {'n': 0, 'out_content': out_content}

        def build(recorder):
            in_handler = InputInterceptionFileDataHandler(in_index, 'file_path', limit_arg)
            out_handler = OutputInterceptionFileDataHandler(0, 'file_path', limit_arg)   # output handlers see the arguments without the instance
            if limit_mode == 'attr':
                in_handler.intercepted_size_limit = out_handler.intercepted_size_limit = limit_bytes / MB
            seen = {}

            class Svc(object):
                @recorder.operation()
                def execute(self):
                    phase['n'] += 1
                    p_in = ('in-%d.bin' % phase['n']) if relative else os.path.join(scratch, 'in-%d.bin' % phase['n'])
                    if by_keyword:
                        got = self.fetch('key1', file_path=p_in)
                    else:
                        got = self.fetch('key1', p_in)
                    with builtins.open(got, 'rb') as f:
                        seen['input_bytes'] = f.read()
                    seen['input_path'] = got
                    p_out = ('out-%d.bin' % phase['n']) if relative else os.path.join(scratch, 'out-%d.bin' % phase['n'])
                    if via_link:
                        with builtins.open(p_out + '.target', 'wb') as f:
                            f.write(phase['out_content'])
                        if os.path.lexists(p_out):
                            os.remove(p_out)
                        os.symlink(p_out + '.target', p_out)
                    else:
                        with builtins.open(p_out, 'wb') as f:
                            f.write(phase['out_content'])
                    os.utime(p_out, (MTIME, MTIME))
                    if by_keyword:
                        self.store(file_path=p_out)
                    else:
                        self.store(p_out)
                    if twice:
                        got = self.fetch('key2', file_path=p_in) if by_keyword else self.fetch('key2', p_in)
                        with builtins.open(got, 'rb') as f:
                            seen['input_bytes2'] = f.read()
                        with builtins.open(p_out, 'wb') as f:        # (through the link, if it is one)
                            f.write(out_content2)
                        os.utime(p_out, (MTIME, MTIME))
                        if by_keyword:
                            self.store(file_path=p_out)
                        else:
                            self.store(p_out)
                    return len(seen['input_bytes'])

                @recorder.intercept_input('fetch', data_handler=in_handler, capture_args=[CapturedArg(1, 'key')])
                def fetch(self, key, file_path):
                    seen['fetch_body_ran'] = True
                    content = in_content if key == 'key1' else in_content2
                    if via_link:
                        with builtins.open(file_path + '.target', 'wb') as f:
                            f.write(content)
                        if os.path.lexists(file_path):
                            os.remove(file_path)
                        os.symlink(file_path + '.target', file_path)
                    else:
                        with builtins.open(file_path, 'wb') as f:
                            f.write(content)
                    os.utime(file_path, (MTIME, MTIME))
                    return file_path

                @recorder.intercept_output('store', data_handler=out_handler)
                def store(self, file_path):
                    seen['store_body_ran'] = True
                    return 'stored'
            R.D.register('Svc', Svc)
            return Svc, seen, out_handler

        # ---- record
        cas = store.open()
        spy = R.SpyCassette(cas, run)
        recorder = TapeRecorder(spy)
        recorder.enable_recording()
        Svc, seen, out_handler = build(recorder)
        stat_fault = (not fault) and tape.draw(10) == 9
        if stat_fault:
            # the size of the file cannot be determined (a transient error of the file system): whatever happens to the
            # recording, a file above the limit is not read into it
            osproxy.fail_stat_of = 'in-1.bin'
            run.probe('size_check_fails')
            run.fault('file_stat_raises')
        if fault:
            oproxy.fail_read_of = 'in-1.bin'
            oproxy.fail_after = tape.choice([None, 0, 1, len(in_content) // 2, max(0, len(in_content) - 1)])
            if oproxy.fail_after is not None:
                run.probe('read_fault_in_the_middle_of_the_file')
        out = R.call_outcome(lambda: Svc().execute())
        oproxy.fail_read_of = None
        oproxy.fail_after = None
        osproxy.fail_stat_of = None
        run.check(out.kind == 'return' and out.value == len(in_content) and seen.get('input_bytes') == in_content, 'service_unaffected', 'service-affected',
                  lambda: 'recording changed the service result: %r' % (out,))
        if twice and not fault:
            run.check(seen.get('input_bytes2') == in_content2, 'service_unaffected', 'service-affected', 'recording changed what the service read from the second file')
        rec_ids = [c[1] for c in spy.calls if c[0] == 'create']
        saved = any(c[0] == 'save' for c in spy.calls)
        read_opens = [o for o in oproxy.opens if 'r' in o[1]]
        if in_above:
            run.probe('above_limit_not_opened')
            run.check(('in-1.bin', 'rb') not in read_opens, 'above_limit_never_read', 'above-limit-input-read',
                      lambda: 'input file of %d bytes is above the limit of %d bytes but was opened for reading: %s' % (len(in_content), limit_bytes, read_opens))
        if out_above:
            run.check(('out-1.bin', 'rb') not in read_opens, 'above_limit_never_read', 'above-limit-output-read',
                      lambda: 'output file of %d bytes is above the limit of %d bytes but was opened for reading' % (len(out_content), limit_bytes))
        if fault and not in_above:
            run.probe('read_fault')
            run.fault('file_read_raises')
            run.check(not saved, 'read_fault_discards_recording', 'saved-after-read-fault', 'the file could not be read but a recording was saved')
            run.nontrivial = True
            return run
        if stat_fault and not saved:
            run.nontrivial = True
            return run          # no recording: fine (what must not happen is a recording holding an above-limit file, checked above)
        if not saved:
            run.violate('saved', 'not-saved', 'recording was not saved: %s' % (spy.calls,))
            return run
        rec_id = rec_ids[-1]
        # ---- restart + replay at another path
        # something may already sit at the path the replayed call names (an earlier replay, a stale download)
        stale = tape.choice(['none', 'same_length', 'longer', 'shorter'])
        exp_len = len(PLACEHOLDER if in_above else in_content)
        if stale != 'none':
            run.probe('stale_file_at_replay_path')
            junk = {'same_length': bytes((b ^ 0x5a) for b in (PLACEHOLDER if in_above else in_content)) or b'', 'longer': b'#' * (exp_len + 7),
                    'shorter': b'#' * max(0, exp_len - 1)}[stale]
            with builtins.open(os.path.join(scratch, 'in-2.bin'), 'wb') as f:
                f.write(junk)
        cas2 = store.open(read_only=True)
        rep_recorder = TapeRecorder(cas2)
        Svc2, seen2, out_handler2 = build(rep_recorder)
        pb = R.call_outcome(lambda: rep_recorder.play(rec_id, lambda recording: Svc2().execute()))
        if pb.kind != 'return':
            run.violate('replay_completes', 'play-raised:%s' % type(pb.exc).__name__, 'play raised %r' % (pb.exc,))
            return run
        run.check(not seen2.get('fetch_body_ran') and not seen2.get('store_body_ran'), 'bodies_not_executed', 'body-ran', 'intercepted bodies ran in replay')
        exp_in = PLACEHOLDER if in_above else in_content
        got = seen2.get('input_bytes')
        if got != exp_in:
            run.violate('input_file_restored', 'input-bytes-differ:%s' % ('above-limit' if in_above else label),
                        'file restored in replay at %s holds %d bytes %r..., expected %d bytes %r... (%s)' % (
                            os.path.basename(seen2.get('input_path', '?')), len(got or b''), (got or b'')[:20], len(exp_in), exp_in[:20], 'placeholder' if in_above else 'original'))
        run.check(os.path.basename(seen2.get('input_path', '')) == 'in-2.bin', 'input_file_restored', 'restored-at-wrong-path',
                  lambda: 'file restored at %s, the replayed call named in-2.bin' % seen2.get('input_path'))
        if twice:
            exp_in2 = PLACEHOLDER if in_above else in_content2
            got2 = seen2.get('input_bytes2')
            run.check(got2 == exp_in2, 'input_file_restored', 'input-bytes-differ:second-version-at-same-path',
                      lambda: 'the path was fetched twice with different bytes of equal length and equal mtime; the second fetch was replayed as %r..., expected %r...' % ((got2 or b'')[:20], exp_in2[:20]))
        # output holders
        playback = pb.value

        def holder_bytes(outputs, n=1):
            vals = [o.value for o in outputs if o.key.startswith('output: store #%d' % n)]
            if len(vals) != 1:
                return None
            return out_handler2.restore_output_from_recording(vals[0]).file_content
        exp_out = PLACEHOLDER if out_above else out_content
        rb, pbb = holder_bytes(playback.recorded_outputs), holder_bytes(playback.playback_outputs)
        run.check(rb == exp_out, 'output_holder_bytes', 'recorded-holder-differs:%s' % ('above-limit' if out_above else label2),
                  lambda: 'recorded output holder carries %r..., expected %r...' % ((rb or b'')[:20], exp_out[:20]))
        run.check(pbb == exp_out, 'output_holder_bytes', 'playback-holder-differs:%s' % ('above-limit' if out_above else label2),
                  lambda: 'replayed output holder carries %r..., expected %r...' % ((pbb or b'')[:20], exp_out[:20]))
        if twice:
            exp_out2 = PLACEHOLDER if out_above else out_content2
            rb2, pbb2 = holder_bytes(playback.recorded_outputs, 2), holder_bytes(playback.playback_outputs, 2)
            run.check(rb2 == exp_out2, 'output_holder_bytes', 'recorded-holder-differs:second-version-at-same-path',
                      lambda: 'second output through the same path: recorded holder carries %r..., expected %r...' % ((rb2 or b'')[:20], exp_out2[:20]))
            run.check(pbb2 == exp_out2, 'output_holder_bytes', 'playback-holder-differs:second-version-at-same-path',
                      lambda: 'second output through the same path: replayed holder carries %r..., expected %r...' % ((pbb2 or b'')[:20], exp_out2[:20]))
        # to_file of the holder writes the same bytes
        vals = [o.value for o in playback.recorded_outputs if o.key.startswith('output: store #1')]
        if vals:
            h = out_handler2.restore_output_from_recording(vals[0])
            p = os.path.join(scratch, 'holder.bin')
            h.to_file(p)
            with builtins.open(p, 'rb') as f:
                run.check(f.read() == exp_out, 'output_holder_bytes', 'to-file-differs', 'holder.to_file wrote other bytes')
        run.nontrivial = label not in ('ascii', 'random_bytes') or label2 not in ('ascii', 'random_bytes')
    finally:
        os.chdir(old_cwd)
        store.close()
    return run
