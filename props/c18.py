"""C18 Recording metadata tells the truth about the run (DESIGN.md section 4, C18)."""
import datetime
import sys

from simkit import seams
from simkit import values as V
from simkit.core import Run
from simkit.runner import safe_run_tape
from simkit.tape import Tape

from playback.tape_recorder import TapeRecorder
from playback.studio.recordings_lookup import find_matching_recording_ids, RecordingLookupProperties

from engines import recplay as R
from engines import cassettes as C

PROP = 'C18'
TERMINATIONS = ['return_before', 'raise_before', 'interrupt_before', 'interrupt_in_body']
EXTRACTORS = [None, 'ok', 'raises', 'junk_none', 'junk_int', 'junk_str', 'junk_list']
T = TapeRecorder

META = {
    'engine': 'recplay',
    'level': 'fault_enumeration',
    'level_text': ('For each generated program every termination mode (early return, ordinary exception, interrupt-style exception '
                   'between steps and inside an intercepted body) is placed at every interception step, on instance and '
                   'class-level operations, crossed with metadata extractors that succeed, raise or return junk, under a virtual '
                   'clock that the workload advances; metadata of every saved recording is compared with a model of the run and '
                   'the default skip-incomplete lookup is checked.  Placement enumeration over sampled programs. Also: an earlier run (and a replay) of the same decorated operation on the same recorder, operations declared on a decorated base class, invocation from inside an except handler, recording switched off while the operation is in flight. An earlier run on a sibling class that inherits the operation; a host whose local time is not UTC. A worker thread still sending an output while the operation ends (two placed pre-emptions). Operations ending in built-in exception classes (AssertionError, KeyError, StopIteration ...) and operations that return an error-shaped value.'),
    'level_note': 'Trusted: virtual clock seam (tape_recorder.time / datetime rebound), the termination model in this file. Clock never steps backwards.',
    'rule': ('evaluation = one (program, termination placement, extractor behaviour) recorded on one recorder together with two '
             'fixed companion runs (one complete, one interrupted) so that the default lookup has something to separate; '
             'non-trivial = the recording was saved and its metadata checked; distinct = distinct event-log digest.'),
    'assumptions': ['virtual clock never steps backwards', 'metadata extractors raise ordinary exceptions only',
                    'an extractor that returns a sequence whose prefix is valid pairs (partial update) is outside the statement and not generated'],
    'components_real': ['TapeRecorder', 'find_matching_recording_ids', 'in-memory / file / S3 cassettes'],
    'components_stub': ['clock (virtual, advanced by the workload)', 'S3 bucket', 'service and environment'],
    'budgets': {'quick': {'seconds': 30}, 'thorough': {'seconds': 480}},
    'required_probes': {'thorough': ['worker_thread_sends_an_output_while_the_operation_ends', 'recording_disabled_while_in_flight', 'interrupt_inside_body', 'interrupt_after_outputs', 'exception_after_outputs', 'class_level_operation',
                                     'extractor_failed', 'lookup_separated_incomplete', 'earlier_run_of_same_operation', 'subclass_of_decorated_base', 'invoked_while_handling_an_exception']},
}


def run_tape(tape):
    clock = seams.VClock(tick=0.0005)
    with seams.deterministic(tape, clock=clock):
        return _run(tape, clock)


def straggler_output(tape, clock):
    """A fire-and-forget worker thread of the operation is still sending an output while the operation ends: it is
    pre-empted at line point k (inside its interception) and gets the processor back at point m of what follows the
    operation body.  The run returned: whatever is saved for it is flagged complete, not ended-in-exception."""
    import os
    from simkit import REPO
    from simkit.sim import Sim, SimDeadlock
    from playback.tape_cassettes.in_memory.in_memory_tape_cassette import InMemoryTapeCassette
    run = Run(PROP)
    run.probe('worker_thread_sends_an_output_while_the_operation_ends')
    k, m = tape.draw(200), tape.draw(120)
    raises = tape.draw(3) == 2
    spec = R.ServiceSpec()
    spec.op.name = 'OpA'
    spec.outputs = [R.OutputSpec(0)]
    late = [['out', 0, ((1,), {}), ('value', 2), None]] * (1 + tape.draw(2))
    spec.body = [['out', 0, ((0,), {}), ('value', 1), None], ['spawn', [late], True]] + ([['raise', R.D.ErrA]] if raises else [])
    sim = Sim(tape, run, preempt_p=0.0, prim_p=0.0, placements={k: 0}, eager_start=True,
              target_files=[os.path.join(REPO, 'playback', 'tape_recorder.py')], max_steps=60000)
    spy = R.SpyCassette(InMemoryTapeCassette(), run)
    recorder = TapeRecorder(spy)
    env = R.Env(spec, run, recorder)
    env.on_body_done = lambda: sim.placements.__setitem__(sim.line_points + m, 0)
    svc = R.Service(spec, env, recorder, thread_factory=R.sim_thread_factory(sim))
    res = {}

    def main():
        res['rec'] = R.record_once(spec, run, spy, recorder=recorder, service=svc)
        for name, th, tobs, strag in svc.threads:
            th.join()
    try:
        sim.run_main(main)
    except SimDeadlock as ex:
        run.violate('saved', 'deadlock', str(ex))
        return run
    rec = res['rec']
    run.nontrivial = sim.switches > 1
    run.say('worker pre-empted at line point %d, resumed %d points after the operation body; operation %s; saved=%s' % (k, m, rec.outcome.kind, rec.saved))
    run.ev('straggler_output', k, m, raises, rec.outcome.kind, rec.saved, sim.switches)
    want = 'raise' if raises else 'return'
    run.check(rec.outcome.kind == want, 'outcome_unchanged', 'outcome', lambda: 'operation ended by %s, expected %s' % (rec.outcome.kind, want))
    if not rec.saved:
        run.violate('saved', 'not-saved', 'recording at rate 1 without discard was not saved: %s' % rec.spy.calls)
        return run
    meta = spy.inner.get_recording(rec.rec_id).get_metadata()
    inc = meta.get(T.INCOMPLETE_RECORDING)
    run.check(inc is False, 'incomplete_iff_interrupted', 'incomplete-%s-on-%s' % (inc, want),
              lambda: 'the operation ended by %s (a worker thread was still sending an output) but the recording is flagged incomplete=%r' % (want, inc))
    exc = meta.get(T.EXCEPTION_IN_OPERATION)
    run.check(exc is raises, 'exception_flag', 'exception-flag-%s-on-%s' % (exc, want), lambda: 'exception flag %r for a run that ended by %s' % (exc, want))
    found = list(find_matching_recording_ids(TapeRecorder(spy.inner), 'OpA', RecordingLookupProperties(None)))
    run.check(rec.rec_id in found, 'default_lookup_returns_complete_ones', 'lookup-misses-complete', 'the default lookup does not return the run')
    return run


def place_termination(spec, st, kind, run):
    if kind == 'return_before':
        lst, n = R.locate(spec.body, st)
        lst.insert(n, ['return'])
        return kind
    return R.place_fault(spec, st, kind, run)


def add_sleeps(tape, spec):
    body = []
    for st in spec.body:
        if tape.draw(3) == 2:
            body.append(['sleep', tape.choice([0.01, 0.5, 3.0, 120.0])])
        body.append(st)
    spec.body = body


def _run(tape, clock):
    mode = tape.draw(3)            # 0 random, 1 placed termination, 2 a worker thread still sending while the operation ends
    if mode == 2:
        return straggler_output(tape, clock)
    run = Run(PROP)
    pos = tape.draw(4096)
    term = TERMINATIONS[tape.draw(len(TERMINATIONS))]
    extractor = EXTRACTORS[tape.draw(len(EXTRACTORS))]
    V.set_flavour(tape)
    spec = R.gen_service(tape, run, max_steps=10, threads=False)
    R.fill_outcomes(tape, run, spec)
    spec.op.extractor = extractor
    if tape.draw(5) == 4:
        spec.op.subclass_of_decorated_base = True
        run.probe('subclass_of_decorated_base')
    within_except = tape.draw(4) == 3
    # the host's local time is not UTC (the recording timestamp is UTC wherever the service runs)
    clock.local_offset = tape.choice([0.0, 0.0, -5 * 3600.0, 9 * 3600.0, 5.5 * 3600.0])
    if clock.local_offset:
        run.probe('host_local_time_is_not_utc')
    if within_except:
        run.probe('invoked_while_handling_an_exception')
    spec.user_metadata = {'user_key': V.gen_faithful(tape, run, 1), 'n': tape.draw(5), 'flag': bool(tape.draw(2))}
    io = [s for s in R.flat_steps(spec.body) if s[0] in ('in', 'out')]
    run.config = {'io_steps': [s[0] for s in io]}
    placed = None
    if mode == 1 and io:
        st = io[pos % len(io)]
        placed = place_termination(spec, st, term, run)
        if any(s[0] == 'out' for s in io[:pos % len(io)]):
            run.probe('interrupt_after_outputs' if 'interrupt' in term else ('exception_after_outputs' if term == 'raise_before' else 'return_after_outputs'))
    elif tape.draw(5) == 4:
        # service code ends in an ordinary exception of its own or of a built-in class (a failed assert, a lookup error)
        exc_cls = tape.choice([R.D.ErrA, AssertionError, R.D.ErrAB, KeyError, LookupError, ArithmeticError, StopIteration])
        spec.body.append(['raise', exc_cls])
        placed = 'raise_at_end:%s' % exc_cls.__name__
        if exc_cls is not R.D.ErrA:
            run.probe('operation_ends_in_a_builtin_exception')
    if tape.draw(4) == 3:
        # the operation RETURNS a value that looks like an error report (the shape the recorder itself uses for raised exceptions)
        spec.op.result_extra = {'error_type': 'ValueError', 'error_repr': "ValueError('reported, not raised')"}
        run.probe('operation_returns_an_error_report')
    if tape.draw(6) == 5:
        # recording is switched off (by an operator, from another thread) while the operation is in flight: whatever is
        # saved for this run must still tell the truth about how it ended
        spec.body.insert(tape.draw(len(spec.body) + 1), ['disable'])
        run.probe('recording_disabled_while_in_flight')
    add_sleeps(tape, spec)
    store = C.gen_store(tape, clock, kinds=['memory', 'memory', 'file', 's3'])
    if spec.op.kind == 'class':
        run.probe('class_level_operation')
    for line in spec.describe():
        run.say(line)
    run.say('termination=%s extractor=%s cassette=%s' % (placed, extractor, store.describe()))
    run.ev('case', spec.describe(), placed, extractor, store.describe())
    try:
        cas = store.open()
        recorder = TapeRecorder(cas)
        # patch sleep steps into the interpreter through the environment clock
        R.Interp.clock = clock
        service = None
        earlier = None
        if tape.draw(2) == 1:
            # an earlier run of the very same decorated operation, with another outcome and other extracted metadata
            run.probe('earlier_run_of_same_operation')
            keep = (spec.body, spec.op.extractor, spec.user_metadata)
            spec.body = tape.choice([[], [['raise', R.D.ErrA]], [['interrupt']], [['discard']], [['discard'], ['raise', R.D.ErrB]]])
            spec.op.extractor = 'ok' if keep[1] is not None else None     # the decorator is given an extractor or not once
            spec.user_metadata = {'earlier_only': 'x', 'n': 99}
            if getattr(spec.op, 'subclass_of_decorated_base', False) and tape.draw(2) == 1:
                # ... made on ANOTHER class that inherits the same decorated operation
                spec.op.run_on_sibling = True
                run.probe('earlier_run_on_a_sibling_class')
            first = R.record_once(spec, run, cas, recorder=recorder)
            spec.op.run_on_sibling = False
            service = first.svc
            earlier = first
            spec.body, spec.op.extractor, spec.user_metadata = keep
        t0 = clock.now
        if tape.draw(4) == 3 and earlier is not None and earlier.saved:
            # ... and a replay on the same recorder in between
            run.probe('replay_before_the_run')
            R.replay_once(spec, run, cas, earlier.rec_id, recorder=recorder)
            recorder.enable_recording()
        rec = R.record_once(spec, run, cas, recorder=recorder, service=service, within_except=within_except)
        t1 = clock.now
        body_time = rec.svc.slept
        run.say('operation: %r saved=%s wall=%.4f slept=%.4f' % (rec.outcome, rec.saved, t1 - t0, body_time))
        if not rec.saved and rec.svc.disabled_at is not None and rec.svc.calls_begun > rec.svc.disabled_at:
            # an interception ran while recording was switched off: the recording is not whole and is rightly dropped (C05)
            run.probe('dropped_interception_after_switch_off')
            return run
        if not rec.saved:
            run.violate('saved', 'not-saved', 'recording at rate 1 without discard was not saved: %s' % rec.spy.calls)
            return run
        if not R.recording_in_faithful_domain(rec):
            run.probe('recording_outside_faithful_domain')
            return run
        cas2 = store.open(read_only=True)
        meta = cas2.get_recording(rec.rec_id).get_metadata()
        run.ev('meta', sorted((k, V.srepr(v)) for k, v in meta.items() if k not in (T.RECORDED_AT, T.DURATION)), rec.outcome.kind)
        run.nontrivial = True
        kind = rec.outcome.kind
        # class / category
        cat = cas2.extract_recording_category(rec.rec_id)
        run.check(cat == spec.op.name, 'category_is_class_name', 'category', lambda: 'category %r for class %s' % (cat, spec.op.name))
        oc = meta.get(T.OPERATION_CLASS)
        run.check(isinstance(oc, type) and oc.__name__ == spec.op.name, 'operation_class', 'operation-class',
                  lambda: 'operation class metadata is %r for class %s' % (oc, spec.op.name))
        # duration
        dur = meta.get(T.DURATION)
        ok = isinstance(dur, float) and dur >= 0 and body_time - 1e-9 <= dur <= (t1 - t0) + 1e-9
        run.check(ok, 'duration_consistent', 'duration', lambda: 'duration %r outside [%r, %r]' % (dur, body_time, t1 - t0))
        # timestamp
        try:
            at = datetime.datetime.strptime(meta.get(T.RECORDED_AT), '%Y-%m-%d %H:%M:%S.%f')
        except Exception:
            try:
                at = datetime.datetime.strptime(meta.get(T.RECORDED_AT), '%Y-%m-%d %H:%M:%S')
            except Exception:
                at = None
        lo = datetime.datetime(1970, 1, 1) + datetime.timedelta(seconds=t0 + body_time - 1e-6)
        hi = datetime.datetime(1970, 1, 1) + datetime.timedelta(seconds=t1 + 1e-6)
        run.check(at is not None and lo <= at <= hi, 'recorded_at_is_finalisation_time', 'recorded-at',
                  lambda: 'recorded-at %r not within [%s, %s]' % (meta.get(T.RECORDED_AT), lo, hi))
        # incomplete / exception flags
        inc = meta.get(T.INCOMPLETE_RECORDING)
        run.check(inc is (kind == 'interrupt'), 'incomplete_iff_interrupted', 'incomplete-%s-on-%s' % (inc, kind),
                  lambda: 'incomplete flag is %r for a run that ended by %s' % (inc, kind))
        if kind != 'interrupt':
            exf = meta.get(T.EXCEPTION_IN_OPERATION)
            run.check(exf is (kind == 'raise'), 'exception_flag', 'exception-flag-%s-on-%s' % (exf, kind),
                      lambda: 'exception flag is %r for a run that ended by %s' % (exf, kind))
        if run.faults.get('interrupt_in_body'):
            run.probe('interrupt_inside_body')
        # user metadata: all or nothing
        user = dict((k, v) for k, v in meta.items() if not k.startswith('_tape_recorder_'))
        if extractor == 'ok':
            run.check(V.canon(user) == V.canon(spec.user_metadata), 'user_metadata_complete', 'user-metadata-differs',
                      lambda: 'user metadata %s, extractor returned %s' % (V.short(user, 200), V.short(spec.user_metadata, 200)))
            run.check(rec.svc.extractor_calls == 1, 'extractor_called_once', 'extractor-calls', 'extractor called %d times' % rec.svc.extractor_calls)
        else:
            if extractor is not None:
                run.probe('extractor_failed')
            run.check(not user, 'no_user_metadata_when_extractor_fails', 'partial-user-metadata',
                      lambda: 'extractor %s but user metadata present: %s' % (extractor, V.short(user, 200)))
        # default lookup returns exactly the complete ones (companions: one complete, one interrupted run)
        if store.kind != 'file':
            comp = companion(run, spec, recorder, cas, False)
            intr = companion(run, spec, recorder, cas, True)
            ids = set(find_matching_recording_ids(TapeRecorder(cas2), spec.op.name, RecordingLookupProperties(None)))
            expect = set([comp]) | (set([rec.rec_id]) if kind != 'interrupt' else set())
            if earlier is not None and earlier.saved and earlier.outcome.kind != 'interrupt' and \
                    earlier.rec_id.split('/')[0] == spec.op.name:      # (an earlier run on a sibling class belongs to that class's category)
                expect.add(earlier.rec_id)
            if ids != expect:
                run.violate('default_lookup_returns_complete_ones', 'lookup-%s' % ('includes-incomplete' if (ids - expect) else 'misses-complete'),
                            'default lookup returned %s, complete recordings are %s (interrupted companion %s)' % (sorted(ids), sorted(expect), intr))
            run.probe('lookup_separated_incomplete')
    finally:
        store.close()
    return run


def companion(run, spec, recorder, cas, interrupted):
    import copy
    s2 = copy.copy(spec)
    s2.op = copy.copy(spec.op)
    s2.op.extractor = None
    s2.body = [['interrupt']] if interrupted else []
    r = R.record_once(s2, run, cas, recorder=recorder)
    return r.rec_id


def run_index(i, seed, tier, emit):
    mod = sys.modules[__name__]
    if i % 6 == 5:
        # the straggler scenario with its two pre-emptions placed systematically (strides in the quick tier)
        for k in range(0, 160, 2 if tier == 'quick' else 1):
            for m in range(0, 100, 6 if tier == 'quick' else 2):
                t = Tape(seed + i, prefix=[2, k, m])
                emit(safe_run_tape(mod, t), t)
        return
    t = Tape(seed, prefix=[0])
    dry = safe_run_tape(mod, t)
    emit(dry, t)
    steps = dry.config.get('io_steps', [])
    for pos in range(len(steps)):
        for k in range(len(TERMINATIONS)):
            exts = range(len(EXTRACTORS)) if (pos + k + seed) % 3 == 0 else [(pos * 7 + k + seed) % len(EXTRACTORS), 1]
            for e in exts:
                t = Tape(seed, prefix=[1, pos, k, e])
                emit(safe_run_tape(mod, t), t)
