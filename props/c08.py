"""C08 Every recording gets exactly one, correctly attributed verdict (DESIGN.md section 4, C08)."""
from simkit import seams
from simkit import values as V
from simkit.core import Run, HarnessError

from engines import equalizer as E
from simkit.runner import safe_run_tape
from simkit.tape import Tape
import sys

PROP = 'C08'

META = {
    'engine': 'equalizer',
    'level': 'exploration',
    'level_text': ('The whole real Equalizer runs over simulated multiprocessing (forked worker tasks, two pipes with reader locks and delivery delay, '
                   'terminate event, os.kill) on a virtual clock with tape-ordered ties.  Seeded runs draw 3-12 recordings (duplicates allowed), a '
                   'behaviour per recording (equal, different, player / extractor / comparator raises, bare status, worker exits with and without '
                   'flushing, worker hangs, worker answers at timeout + 1 s +- epsilon, slow), mode, recycle rate 1-5, timeout 1-5 s, keep-results, '
                   'queue delay, slow worker start, an idle worker killed from outside, primitive- and line-level pre-emption.  Each Comparison is '
                   'checked for position, label, attached replay, expected / actual, message and verdict against a per-behaviour model; the same '
                   'script in in-process mode must give the same verdicts. Also: replays that start a helper process of their own, replays that miss a key after sending an output (every output sent takes part in the comparison).'),
    'level_note': ('Trusted: fake multiprocessing (simkit/fake_mp.py: reader lock orphaned by SIGKILL is modelled, torn pipe writes and an orphaned writer '
                   'lock are not), scheduler, the per-behaviour verdict table. A late answer may legally be Equal or a timeout failure.'),
    'rule': ('evaluation = one comparison run (dedicated mode additionally re-run in in-process mode); non-trivial = at least one faulty behaviour or an '
             'external kill occurred in dedicated-process mode; distinct = distinct event-log digest.'),
    'assumptions': ['recycle rate >= 1', 'results put on the queue are picklable', 'no SIGKILL lands inside the few-microsecond pipe write of the feeder thread'],
    'components_real': ['playback.studio.equalizer.Equalizer (run_comparison, worker dispatch, timeout / death handling, recycle, worker loop, play+extract+compare)',
                        'TapeRecorder.play', 'InMemoryTapeCassette'],
    'components_stub': ['multiprocessing Queue / Event / Process, os.kill, time() (simulated)', 'player behaviours (scripted)'],
    'budgets': {'quick': {'seconds': 40}, 'thorough': {'seconds': 600}},
    'required_probes': {'thorough': ['late_answer_after_give_up', 'late_answer_in_time', 'worker_killed_on_timeout', 'worker_died', 'recycled', 'idle_worker_killed',
                                     'killed_inside_queue_get', 'mode_equivalence_checked', 'keep_results']},
}


def run_tape(tape):
    with seams.deterministic(tape):
        return _run(tape)


def verdict_checks(run, sc, out, label):
    world = out.world
    ids = out.ids
    comps = out.comparisons
    if out.deadlock:
        run.violate('run_completes', 'deadlock', '%s: %s' % (label, out.deadlock))
        return None
    if out.limit:
        run.violate('run_completes', 'livelock', '%s: %s' % (label, out.limit))
        return None
    full = sc.consume == 'full'
    if full and len(comps) != len(ids):
        run.violate('one_comparison_per_id', 'count', '%s: %d comparisons for %d recording ids' % (label, len(comps), len(ids)))
    verdicts = []
    kill_victim = []
    for i, c in enumerate(comps):
        rid = ids[i]
        tag = world.tag_of[rid]
        b = world.effective(tag)
        name = E.status_name(c)
        verdicts.append(name)
        where = '%s: comparison #%d (%s, behaviour %s)' % (label, i, tag, b)
        if c.recording_id != rid:
            run.violate('labelled_with_its_id', 'wrong-label', '%s is labelled %s instead of %s' % (where, c.recording_id, rid))
            continue
        attributed_to = None
        if c.playback is not None:
            pid_ = c.playback.original_recording.id
            if pid_ != rid:
                attributed_to = world.tag_of.get(pid_, pid_)
            else:
                try:
                    t2 = E.Extractor(E.World(run, None, None, None))(c.playback.playback_outputs).get('tag')
                    if t2 != tag:
                        attributed_to = t2
                except Exception:
                    pass
        if attributed_to is None and sc.keep:
            for side in (c.expected, c.actual):
                if isinstance(side, dict) and side.get('tag') != tag:
                    attributed_to = side.get('tag')
        msg = getattr(c.comparator_status, 'message', None)
        if attributed_to is None and msg and msg.startswith('compared ') and ('compared %s with' % tag) not in msg:
            attributed_to = msg
        if attributed_to is None and msg and msg.startswith('compared ') and sc.data_extractor and not msg.endswith('data=%s' % rid):
            attributed_to = 'comparison data of another recording (%s)' % msg
        if attributed_to is not None:
            prev = [world.effective(world.tag_of[ids[j]]) for j in range(i)]
            cause = 'after-timeout' if any(p in ('worker_late_answer', 'worker_hang', 'worker_late_death') for p in prev) else ('after-worker-death' if any(p in ('worker_exit', 'worker_abort') for p in prev) or sc.idle_kill else 'other')
            run.violate('verdict_of_that_recording_alone', 'attributed-to-other-recording:%s' % cause,
                        '%s carries the replay / result of %s (verdict %s)' % (where, attributed_to, name))
            continue
        allowed = list(E.ALLOWED[b])
        if out.killed_when is not None and i in (out.killed_when, out.killed_when + 1) and not kill_victim:
            # the one recording that meets the worker killed from outside: the one in flight, or - when its answer was
            # already in the pipe - the next one
            allowed.append('EqualizerFailure')
            if name == 'EqualizerFailure' and 'EqualizerFailure' not in E.ALLOWED[b]:
                kill_victim.append(i)
        if name not in allowed:
            prev = [world.effective(world.tag_of[ids[j]]) for j in range(i)]
            if b in ('equal', 'slow', 'different', 'comparator_bare_status') and name == 'EqualizerFailure':
                cause = 'after-timeout' if any(p in ('worker_late_answer', 'worker_hang', 'worker_late_death') for p in prev) else ('after-worker-death' if any(p in ('worker_exit', 'worker_abort') for p in prev) or sc.idle_kill else 'other')
                if sc.idle_kill and cause == 'after-worker-death' and i == sc.idle_kill_at + 0 and False:
                    pass
                run.violate('later_recordings_unaffected', 'healthy-recording-failed:%s' % cause,
                            '%s got %s (%s); an earlier fault leaked into it' % (where, name, msg))
            else:
                run.violate('verdict_matches_behaviour', 'wrong-verdict:%s->%s' % (b, name), '%s got verdict %s (%s), allowed %s' % (where, name, msg, E.ALLOWED[b]))
        if b == 'worker_late_answer':
            run.probe('late_answer_in_time' if name == 'Equal' else 'late_answer_after_give_up')
    return verdicts


WORKER_FAULTS = ['worker_late_answer', 'worker_hang', 'worker_exit', 'worker_abort', 'worker_late_death']
EPS = [0.0, 0.0005, 0.0002, -0.01, 0.01]


def _run(tape):
    run = Run(PROP)
    placed = tape.draw(3)          # 0 random behaviours; 1 one worker fault placed; 2 two placed
    pos = tape.draw(64)
    kind = tape.draw(8)
    eps = tape.draw(len(EPS))
    sc = E.Scenario(tape, force_dedicated=True if placed else None)
    sc.allow_kill_failure = True
    if placed:
        sc.n = min(sc.n, 6)
        sc.behaviours = ['equal'] * sc.n
        p = pos % sc.n
        sc.behaviours[p] = WORKER_FAULTS[kind % 5]
        sc.late_eps[p] = EPS[eps]
        if placed == 2:
            sc.behaviours[(p + 1 + kind // 5) % sc.n] = WORKER_FAULTS[(kind + 1) % 5]
        sc.idle_kill = False
        sc.queue_delay = 0.0 if kind < 5 else sc.queue_delay
        sc.consume = 'full'
        if kind % 5 in (0, 4):
            # the race between the parent giving up and the late answer needs computation to cost time
            sc.jitter = 4
            sc.preempt = 0.6
    run.say(sc.describe())
    out = E.run_scenario(run, tape, sc)
    verdicts = verdict_checks(run, sc, out, 'dedicated' if sc.dedicated else 'in-process')
    mp = out.mp
    if any(p.killed_by == 'os.kill' for p in mp.processes):
        run.probe('worker_killed_on_timeout')
    if any(p.killed_by == 'external' for p in mp.processes):
        run.probe('idle_worker_killed')
    if any(b in ('worker_exit', 'worker_abort') for b in sc.behaviours) and sc.dedicated:
        run.probe('worker_died')
    if len(mp.processes) > 1:
        run.probe('recycled')
    if sc.keep:
        run.probe('keep_results')
    faulty = [b for b in sc.behaviours if b != 'equal']
    run.nontrivial = sc.dedicated and (bool(faulty) or sc.idle_kill)
    run.say('verdicts: %s' % verdicts)
    run.ev('verdicts', sc.describe(), verdicts, [(p.pid, p.killed_by, p.exitcode) for p in mp.processes], round(out.sim.now, 4))
    # ---- the same behaviour script in in-process mode gives the same verdicts (worker-only faults excepted)
    if sc.dedicated and verdicts is not None and sc.consume == 'full' and not run.violations:
        sc2 = E.Scenario.__new__(E.Scenario)
        sc2.__dict__.update(sc.__dict__)
        sc2.dedicated = False
        sc2.idle_kill = False
        run2 = Run(PROP)
        out2 = E.run_scenario(run2, tape, sc2)
        v2 = [E.status_name(c) for c in out2.comparisons]
        run.probe('mode_equivalence_checked')
        for i, (a, b_) in enumerate(zip(verdicts, v2)):
            beh = sc.behaviours[i] if i < len(sc.behaviours) else 'equal'
            tag = out.world.tag_of[out.ids[i]]
            beh = out.world.behaviour.get(tag, 'equal')
            if beh in E.WORKER_ONLY:
                continue
            if sc.idle_kill:
                continue
            if a != b_:
                run.violate('modes_agree', 'modes-disagree:%s' % beh, 'recording #%d (%s): dedicated-process verdict %s, in-process verdict %s' % (i, beh, a, b_))
        run.check(len(v2) == len(out.ids), 'one_comparison_per_id', 'count-in-process', 'in-process mode yielded %d comparisons for %d ids' % (len(v2), len(out.ids)))
    return run


def run_index(i, seed, tier, emit):
    mod = sys.modules[__name__]
    # seeded random scenarios (all behaviours, both modes, consumption patterns, external kill)
    for k in range(25):
        t = Tape(seed * 31 + k, prefix=[0])
        emit(safe_run_tape(mod, t), t)
    # systematic placement on this seed's configuration: one worker fault at every position, every tie-break epsilon
    for pos in range(6):
        for kind in range(5):
            for eps in (range(len(EPS)) if kind in (0, 4) else [0]):
                t = Tape(seed, prefix=[1, pos, kind, eps])
                emit(safe_run_tape(mod, t), t)
    for pos in range(0, 6, 2):
        for kind in range(10):
            t = Tape(seed, prefix=[2, pos, kind, (pos + kind) % len(EPS)])
            emit(safe_run_tape(mod, t), t)
