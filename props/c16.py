"""C16 S3 time-window lookup is exact (DESIGN.md section 4, C16)."""
import datetime
import sys

from simkit import seams
from simkit.core import Run
from simkit.runner import safe_run_tape
from simkit.tape import Tape

from engines import cassettes as C

PROP = 'C16'
T0 = datetime.datetime(2020, 2, 27, 0, 0, 0)     # spans a leap day and a month boundary

GRIDS = {'quick': (3, 3), 'thorough': (4, 1)}    # (days, step hours)


def grid(tier):
    days, step = GRIDS[tier]
    return [T0 + datetime.timedelta(hours=h) for h in range(0, days * 24, step)]


def nchunks(tier):
    return len(grid(tier))


META = {
    'engine': 'storage',
    'level': 'exploration',
    'level_text': ('A virtual clock drives datetime.today()/utcnow() in the S3 cassette and last-modified in the fake bucket.  Recordings are saved at every '
                   'grid instant (quick: every 3 h of 3 days; thorough: every hour of 4 days, across a leap day and month end), with decoys in other '
                   'categories, and EVERY window start <= end on the grid is looked up, plus end=None with "now" at several positions; beyond the grid '
                   'seeded random second-level instants and windows.  The returned set must equal {r : start <= t_r <= end}. Also: a long-lived reader and a long-lived writer cassette across midnights, random-order listing, and several lazy lookups with different windows in flight on one cassette object. Windows whose end lies before their start, starts in the future, windows with a limit. Ids whose text order is unrelated to creation order; a storage-class threshold. Beyond the grid the category text is tape-chosen (blanks, %, braces); one listing request of a lookup failing (the lookup may raise, a normal return is exact).'),
    'level_note': 'Trusted: virtual clock seam, fake S3 last_modified (second resolution, UTC), the inclusive-window reference. Recordings are created and saved at the same instant; process clock is UTC.',
    'rule': ('evaluation = one window lookup; work item = all windows with one start instant (table part) or 30 random windows over randomly timed recordings; '
             'non-trivial = the window contains some but not all recordings of the category; distinct = distinct event-log digest. exhaustive=true refers to the grid.'),
    'exhaustive_part': 'all windows start <= end on the hour grid (quick 24 instants / 300 windows, thorough 96 instants / 4656 windows) plus end=None',
    'table_chunks': {'quick': nchunks('quick'), 'thorough': nchunks('thorough')},
    'assumptions': ['recordings are created and saved at the same instant', 'process clock in UTC', 'S3 last-modified has second resolution'],
    'components_real': ['S3TapeCassette._get_id_prefixes / iter_recording_ids', 'S3BasicFacade.iter_keys last-modified predicate'],
    'components_stub': ['S3 bucket', 'clock'],
    'budgets': {'quick': {'seconds': 20}, 'thorough': {'seconds': 240}},
    'required_probes': {'quick': ['grid_window'], 'thorough': ['grid_window', 'random_window', 'end_defaults_to_now', 'window_crosses_midnight_end_earlier_in_day', 'long_lived_cassette_lookup', 'random_order_window', 'interleaved_lookups_on_one_cassette', 'window_end_before_start', 'window_start_in_the_future', 'window_with_limit']},
}


# the category under which the recordings are made and looked up: fixed for the grid, tape-chosen beyond it (category text is
# the caller's: it may hold blanks and the characters date formats and key templates give a meaning to)
CAT = ['OpA']
CATEGORIES = ['OpA', 'OpA', 'Op A', '50%Done', 'cpu%Mem', 'q=a%20b', '%%', '{0}', 'Op{A}']


def choose_category(tape, run):
    CAT[0] = tape.choice(CATEGORIES)
    if CAT[0] != 'OpA':
        run.probe('category_with_special_characters')
    run.ev('category', CAT[0])
    run.say('category %r' % CAT[0])


def populate(clock, store, instants, tape=None):
    cas = store.open()
    out = []
    for n, t in enumerate(instants):
        clock.set(t)
        for cat in ([CAT[0], CAT[0] + 'B'] if n % 4 == 0 else [CAT[0]]):
            r = cas.create_new_recording(cat)
            r.set_data('k', n)
            r.add_metadata({'n': n})
            cas.save_recording(r)
            if cat == CAT[0]:
                out.append((t.replace(microsecond=0), r.id))
    return out


def interleaved_windows(run, tape, cas, recs, windows, now):
    """Several lookups with different windows are in flight on ONE cassette object at the same time: their (lazy)
    result iterators are consumed in a tape-chosen interleaving.  Each must still be exact for its own window."""
    run.probe('interleaved_lookups_on_one_cassette')
    its, got, failed = [], [[] for _ in windows], {}
    for n, (a, b) in enumerate(windows):
        try:
            its.append(iter(cas.iter_recording_ids(CAT[0], start_date=a, end_date=b)))
        except Exception as ex:
            its.append(None)
            failed[n] = ex
    live = [n for n, it in enumerate(its) if it is not None]
    while live:
        n = live[tape.draw(len(live))]
        try:
            got[n].append(next(its[n]))
        except StopIteration:
            live.remove(n)
        except Exception as ex:
            failed[n] = ex
            live.remove(n)
    for n, (a, b) in enumerate(windows):
        label = 'lookup %d of %d interleaved on one cassette,' % (n + 1, len(windows))
        if n in failed:
            run.violate('window_exact', 'lookup-raised:%s' % type(failed[n]).__name__, '%s window %s .. %s raised %r' % (label, a, b, failed[n]))
        else:
            check_window(run, cas, recs, a, b, now, label, got=got[n])


def check_window(run, cas, recs, start, end, now, label, random_results=False, got=None, limit=None):
    exp = set(rid for t, rid in recs if start <= t and t <= (end if end is not None else now.replace(microsecond=0)))
    try:
        if random_results:
            run.probe('random_order_window')
            label += ' (random order)'
        if got is None:
            got = list(cas.iter_recording_ids(CAT[0], start_date=start, end_date=end, random_results=random_results, limit=limit))
    except Exception as ex:
        run.violate('window_exact', 'lookup-raised:%s' % type(ex).__name__, '%s window %s .. %s raised %r' % (label, start, end, ex))
        return
    gs = set(got)
    e = end if end is not None else now
    crosses = e.date() > start.date() and e.time() < start.time()
    if crosses:
        run.probe('window_crosses_midnight_end_earlier_in_day')
    if 0 < len(exp) < len(recs):
        run.nontrivial = True
    if len(got) != len(gs):
        run.violate('window_exact', 'duplicates', '%s window %s .. %s returned duplicates' % (label, start, end))
    if limit is not None and not (gs - exp):
        # with a limit: min(limit, matches) of the recordings inside the window, none from outside it
        run.probe('window_with_limit')
        want = min(limit, len(exp))
        if len(gs) != want:
            run.violate('window_exact', 'limit:%s' % ('too-few' if len(gs) < want else 'too-many'),
                        '%s window %s .. %s with limit %d returned %d recordings, the window holds %d' % (label, start, end, limit, len(gs), len(exp)))
        return
    if gs != exp:
        missing, extra = exp - gs, gs - exp
        times = dict((rid, t) for t, rid in recs)
        what = 'missed' if missing else 'outside'
        detail = ':last-day' if missing and all(times[m].date() == e.date() for m in missing) else ''
        run.violate('window_exact', '%s%s%s' % (what, detail, ':end-earlier-in-day' if crosses else ''),
                    '%s window %s .. %s%s: missed %s, returned outside the window %s' % (
                        label, start, end, ' (now=%s)' % now if end is None else '', sorted(str(times[m]) for m in missing)[:4], sorted(str(times.get(x, x)) for x in extra)[:4]))


def table_start(tape, clock, tier):
    run = Run(PROP)
    CAT[0] = 'OpA'
    g = grid(tier)
    i = tape.draw(len(g))
    store = C.Store('s3', key_prefix=tape.choice(['a', '', 'a/b']), clock=clock, page_size=tape.choice([1000, 2]))
    try:
        recs = populate(clock, store, g)
        cas = store.open(read_only=True)
        run.subruns = 0
        start = g[i]
        now = g[-1] + datetime.timedelta(hours=5)
        clock.set(now)
        for n_, end in enumerate(g[i:]):
            run.subruns += 1
            check_window(run, cas, recs, start, end, now, 'grid', random_results=(n_ + i) % 5 == 4)
        run.probe('grid_window', run.subruns)
        # end defaults to now, at several positions of the clock: the bucket then holds what was saved up to that instant
        for k in sorted(set([i, (i + len(g)) // 2, len(g) - 1])):
            st2 = C.Store('s3', key_prefix=store.key_prefix, clock=clock, page_size=store.world.page_size)
            recs2 = populate(clock, st2, g[:k + 1])
            now = g[k] + datetime.timedelta(minutes=tape.choice([0, 30, 59]))
            clock.set(now)
            run.subruns += 1
            run.probe('end_defaults_to_now')
            check_window(run, st2.open(read_only=True), recs2, start, None, now, 'grid/end=now')
        C.set_world(store.world)
        run.say('start %s: %d windows over %d recordings' % (start, run.subruns, len(recs)))
        run.ev('table', i, tier, [v.signature for v in run.violations])
    finally:
        store.close()
    return run


def random_windows(tape, clock):
    run = Run(PROP)
    choose_category(tape, run)
    store = C.Store('s3', key_prefix=tape.choice(['a', '', 'ab']), clock=clock, page_size=tape.choice([1000, 1, 2]))
    store.ia_kb = tape.choice([None, None, 0.001])
    try:
        span = 3 * 86400
        instants = sorted(T0 + datetime.timedelta(seconds=tape.draw(span // 60) * 60 + tape.choice([0, 0, 1, 59])) for _ in range(4 + tape.draw(12)))
        # last-modified has second resolution; keep instants distinct
        instants = sorted(set(instants))
        recs = populate(clock, store, instants)
        cas = store.open(read_only=True)
        run.subruns = 0
        for _ in range(30):
            a = T0 + datetime.timedelta(seconds=tape.draw(span // 60) * 60 + tape.choice([0, 0, 1, 59])) if tape.draw(3) else tape.choice(instants)
            if tape.draw(4) == 3:
                now = max(instants[-1], a) + datetime.timedelta(seconds=tape.draw(span))
                if tape.draw(4) == 3:
                    # the start lies in the future of the reader (and of everything stored): an empty window
                    a = max(instants[-1], a) + datetime.timedelta(seconds=3600 + tape.draw(span))
                    now = a - datetime.timedelta(seconds=1 + tape.draw(3000))
                    run.probe('window_start_in_the_future')
                clock.set(now)
                run.probe('end_defaults_to_now')
                check_window(run, cas, recs, a, None, now, 'random/end=now', random_results=tape.draw(3) == 2)
            else:
                b = a + datetime.timedelta(seconds=tape.draw(span // 60) * 60 + tape.choice([0, 0, 1])) if tape.draw(3) else tape.choice(instants)
                if b < a:
                    if tape.draw(3) == 2:
                        run.probe('window_end_before_start')      # an empty window: nothing may be returned
                    else:
                        a, b = b, a
                now = T0 + datetime.timedelta(days=5)
                clock.set(now)
                if tape.draw(4) == 3:
                    wins = [(a, b)]
                    for _ in range(1 + tape.draw(2)):
                        c, d = tape.choice(instants), tape.choice(instants)
                        wins.append((min(c, d), max(c, d)))
                    interleaved_windows(run, tape, cas, recs, tape.shuffle(wins), now)
                else:
                    check_window(run, cas, recs, a, b, now, 'random', random_results=tape.draw(3) == 2, limit=tape.choice([None, None, 1, 2, 5]))
            run.subruns += 1
            run.probe('random_window')
        run.say('%d random windows over recordings at %s' % (run.subruns, [str(t) for t in instants][:6]))
        run.ev('random', [str(t) for t in instants], [v.signature for v in run.violations])
    finally:
        store.close()
    return run


def faulty_listing(tape, clock):
    """One listing request (a page of one day folder) of a lookup fails: the lookup may fail, it never returns normally with
    less (or more) than the window holds."""
    run = Run(PROP)
    choose_category(tape, run)
    store = C.Store('s3', key_prefix=tape.choice(['a', '', 'ab']), clock=clock, page_size=tape.choice([1000, 1, 2]))
    try:
        span = 3 * 86400
        instants = sorted(set(T0 + datetime.timedelta(seconds=tape.draw(span // 60) * 60) for _ in range(4 + tape.draw(12))))
        recs = populate(clock, store, instants)
        cas = store.open(read_only=True)
        world = store.world
        now = T0 + datetime.timedelta(days=5)
        clock.set(now)
        run.subruns = 0
        for _ in range(12):
            c, d = tape.choice(instants), tape.choice(instants)
            a, b = min(c, d), max(c, d)
            rnd = tape.draw(3) == 2
            n0 = world.list_calls
            clean = list(cas.iter_recording_ids(CAT[0], start_date=a, end_date=b, random_results=rnd))
            n_req = world.list_calls - n0
            if not n_req:
                continue
            world.fail_list_at = world.list_calls + 1 + tape.draw(n_req)
            fired0 = world.list_faults_fired
            run.subruns += 1
            try:
                got = list(cas.iter_recording_ids(CAT[0], start_date=a, end_date=b, random_results=rnd))
            except Exception as ex:
                got = None
                run.ev('faulty-lookup', str(a), str(b), 'raised', type(ex).__name__)
            world.fail_list_at = None
            if world.list_faults_fired > fired0:
                run.fault('list_raises')
                run.nontrivial = True
            if got is not None:
                run.ev('faulty-lookup', str(a), str(b), 'returned', len(got))
                check_window(run, cas, recs, a, b, now, 'lookup with a failing listing request,', got=got)
            run.check(set(clean) == set(rid for t, rid in recs if a <= t <= b), 'window_exact', 'missed:fault-free-control',
                      'the fault-free lookup of window %s .. %s was not exact' % (a, b))
    finally:
        store.close()
    return run


def long_lived(tape, clock):
    """One reader cassette object lives through the whole history while the clock crosses midnights: the same
    open-ended lookup is repeated after every save."""
    run = Run(PROP)
    choose_category(tape, run)
    store = C.Store('s3', key_prefix=tape.choice(['a', '', 'ab']), clock=clock, page_size=tape.choice([1000, 2]))
    try:
        now = T0 + datetime.timedelta(hours=tape.draw(24))
        clock.set(now)
        writer = store.open()
        reader = store.open(read_only=True)
        starts = [now - datetime.timedelta(hours=tape.draw(30)), now + datetime.timedelta(hours=tape.draw(10))]
        recs = []
        run.subruns = 0
        for step in range(4 + tape.draw(10)):
            now = now + datetime.timedelta(hours=tape.choice([1, 5, 11, 23, 30]), minutes=tape.choice([0, 17]))
            clock.set(now)
            r = writer.create_new_recording(CAT[0])
            r.set_data('k', step)
            r.add_metadata({'n': step})
            writer.save_recording(r)
            recs.append((now.replace(microsecond=0), r.id))
            for start in starts:
                if start <= now:
                    run.subruns += 1
                    run.probe('long_lived_cassette_lookup')
                    check_window(run, reader, recs, start, None, now, 'long-lived cassette, step %d' % step, random_results=tape.draw(4) == 3)
        run.say('long-lived reader, %d lookups, recordings at %s' % (run.subruns, [str(t) for t, _ in recs][:8]))
        run.ev('long', [str(t) for t, _ in recs], [str(x) for x in starts], [v.signature for v in run.violations])
    finally:
        store.close()
    return run


def run_tape(tape):
    clock = seams.VClock(tick=0.0)
    with seams.deterministic(tape, clock=clock, scrambled_ids=True):      # S3 lists by key text: ids must not sort by creation time
        mode = tape.draw(4)
        if mode == 3:
            return long_lived(tape, clock)
        if mode == 1:
            return table_start(tape, clock, 'quick')
        if mode == 2:
            return table_start(tape, clock, 'thorough')
        if tape.draw(4) == 3:
            return faulty_listing(tape, clock)
        return random_windows(tape, clock)


def run_index(i, seed, tier, emit):
    mod = sys.modules[__name__]
    if i < nchunks(tier):
        t = Tape(seed, prefix=[1 if tier == 'quick' else 2, i])
        emit(safe_run_tape(mod, t), t)
        return
    t = Tape(seed, prefix=[0 if i % 2 else 3])
    emit(safe_run_tape(mod, t), t)
