"""C12 Asynchronous recording stores exactly what synchronous recording would (DESIGN.md section 4, C12)."""
import os
import sys

from simkit import REPO, seams
from simkit import values as V
from simkit import spyrec
from simkit.core import Run, HarnessError
from simkit.runner import safe_run_tape
from simkit.sim import Sim, SimDeadlock, SimLimit, bound_primitives
from simkit.tape import Tape

from playback.tape_cassettes.asynchronous import async_record_only_tape_cassette as AM
from playback.tape_cassettes.in_memory.in_memory_tape_cassette import InMemoryTapeCassette
from playback.tape_recorder import TapeRecorder

from engines import recplay as R

PROP = 'C12'
TARGET = os.path.join(REPO, 'playback', 'tape_cassettes', 'asynchronous', 'async_record_only_tape_cassette.py')

META = {
    'engine': 'async',
    'level': 'fault_enumeration',
    'level_text': ('The real AsyncRecordOnlyTapeCassette and AsyncRecording run with simulated Thread / Lock / Event: 1-3 producer tasks issue small '
                   'workloads (create, repeated set_data, add_metadata, save / abort) with tape-chosen pauses, the real flusher loop runs as a task on '
                   'the virtual clock, the wrapped in-memory cassette is slow and fails where the tape says.  Schedules: every single line-level '
                   'pre-emption placement per workload (<= 1 pre-emption, exhaustive per sampled workload), every single placement of a failing '
                   'wrapped operation, and seeded random pre-emption beyond.  A second workload drives the wrapper through real TapeRecorder operations. Operations of one recording issued by two threads in turn; more than 1000 operations pending at close.'),
    'level_note': 'Trusted: baton scheduler and simulated Lock/Event/Thread semantics (simkit/sim.py), spy recording side table. Assumes total storage delay below timeout_on_close and that values handed to the cassette are not mutated afterwards.',
    'rule': ('evaluation = one workload under one schedule / fault placement; non-trivial = at least one context switch happened inside the async cassette '
             'module or a wrapped operation failed or was slow; distinct = distinct event-log digest; distinct_schedules = distinct context-switch sequences.'),
    'assumptions': ['total storage delay stays below timeout_on_close (the bound close() documents)', 'values handed to the cassette are not mutated afterwards',
                    'pre-emption granularity is the source line of async_record_only_tape_cassette.py'],
    'components_real': ['AsyncRecordOnlyTapeCassette (start, close, _add_async_operation, _recording_loop, _flush_recording)', 'AsyncRecording', 'InMemoryTapeCassette (wrapped)',
                        'TapeRecorder (second workload class)'],
    'components_stub': ['threading.Thread / Lock / Event (simulated, virtual time)', 'storage latency and failures (spy)', 'producers (generated workloads)'],
    'budgets': {'quick': {'seconds': 40}, 'thorough': {'seconds': 600}},
    'required_probes': {'thorough': ['lock_contended', 'flush_while_producer_mid_append', 'storage_op_failed', 'storage_slow', 'final_flush_had_work',
                                     'close_while_producer_running', 'recorder_workload', 'three_producers', 'close_timeout_shorter_than_flush_interval', 'operations_of_one_recording_issued_by_two_threads', 'more_than_1000_operations_pending_at_close']},
}


class SpyWrapped(InMemoryTapeCassette):
    """The wrapped cassette: real in-memory cassette whose recordings journal into a side table."""

    def __init__(self, ctx):
        super(SpyWrapped, self).__init__()
        self.ctx = ctx

    def create_new_recording(self, category):
        r = super(SpyWrapped, self).create_new_recording(category)
        return spyrec.SpyRecording(r.id)

    def save_recording(self, recording):
        self.ctx.wrapped_op('save', recording.id, None, None)
        return super(SpyWrapped, self).save_recording(recording)

    def close(self):
        self.ctx.closed_wrapped = True


class Ctx(object):
    def __init__(self, run, sim, tape):
        self.run, self.sim, self.tape = run, sim, tape
        self.applied = {}          # recording id -> [(op, key)]
        self.fail = set()          # (recording ordinal, op index) that raise
        self.slow = {}
        self.cassette = None
        self.closed_wrapped = False
        self.op_counter = {}
        self.ordinal = {}

    def wrapped_op(self, op, rid, key, value):
        sim = self.sim
        cas = self.cassette
        me = sim.current
        if cas is not None and cas._lock.owner is me:
            self.run.violate('producers_never_wait_for_storage', 'storage-call-under-lock', 'the flusher executes %s on the wrapped storage while holding the buffer lock' % op)
        if self.closed_wrapped:
            self.run.violate('close_closes_wrapped', 'operation-after-wrapped-close', 'the wrapped cassette was closed before the pending %s of %s was applied' % (op, rid))
        n = self.op_counter.get(rid, 0)
        self.op_counter[rid] = n + 1
        tag = (self.ordinal.get(rid), n)
        d = self.slow.get(tag)
        if d:
            self.run.fault('storage_slow')
            self.run.probe('storage_slow')
            sim.sleep(d)
        if tag in self.fail:
            self.run.fault('storage_op_raises')
            self.run.probe('storage_op_failed')
            self.applied.setdefault(rid, []).append(('FAILED-' + op, key))
            raise IOError('injected: wrapped %s fails' % op)
        self.applied.setdefault(rid, []).append((op, key))


class TimeProxy(object):
    def __init__(self, sim):
        self.sim = sim

    def sleep(self, seconds):
        self.sim.sleep(seconds)

    def time(self):
        return self.sim.time()

    def monotonic(self):
        return self.sim.time()


def sim_names(sim, Thread, Lock, Event):
    """Every name through which the async module could reach threads or time is bound to the simulator (the names
    `sleep`, `time` and `threading` do not exist in the module today; a change that starts using them must not
    escape the virtual clock)."""
    class ThreadingProxy(object):
        pass
    tp = ThreadingProxy()
    tp.Thread, tp.Lock, tp.Event, tp.RLock = Thread, Lock, Event, Lock
    return [(AM.__name__, 'Thread', Thread), (AM.__name__, 'Lock', Lock), (AM.__name__, 'Event', Event),
            (AM.__name__, 'sleep', sim.sleep), (AM.__name__, 'time', TimeProxy(sim)), (AM.__name__, 'threading', tp)]


def gen_workload(tape, run, nprod):
    """Per producer: list of recordings, each a list of requested operations."""
    prods = []
    ordinal = 0
    for p in range(nprod):
        recs = []
        for _ in range(1 + tape.draw(2)):
            ops = []
            keys = ['k%d' % i for i in range(1 + tape.draw(3))]
            for _ in range(tape.draw(5)):
                if tape.draw(4) == 3:
                    ops.append(('add_metadata', None, {'m%d' % tape.draw(3): tape.draw(100)}))
                else:
                    ops.append(('set_data', tape.choice(keys), V.gen_faithful(tape, run, 1)))
            end = tape.weighted([(5, 'save'), (1, 'abort'), (1, 'none')])
            recs.append({'ordinal': ordinal, 'category': tape.choice(['OpA', 'OpB']), 'ops': ops, 'end': end,
                         'pauses': [tape.choice([0, 0, 0.03, 0.1, 0.5]) for _ in range(len(ops) + 2)]})
            if len(ops) >= 2 and tape.draw(4) == 3:
                # a stretch of the operations on this recording is issued by a helper thread the producer starts and joins
                # (worker threads of one operation): the request order is still total
                lo = tape.draw(len(ops))
                recs[-1]['relay'] = (lo, lo + 1 + tape.draw(len(ops) - lo))
                run.probe('operations_of_one_recording_issued_by_two_threads')
            ordinal += 1
        prods.append(recs)
    return prods


def run_tape(tape):
    with seams.deterministic(tape):
        return _run(tape)


def _run(tape):
    run = Run(PROP)
    V.FLAVOUR['objects'], V.FLAVOUR['sharing'] = False, False
    place_mode = tape.draw(3)            # 0 random pre-emption, 1 single placed pre-emption, 2 single placed failing op
    place_idx = tape.draw(1 << 20)
    place_to = tape.draw(4)
    fail_idx = tape.draw(4096)
    preempt = tape.choice([0.0, 0.02, 0.1, 0.4])
    workload_kind = tape.weighted([(4, 'direct'), (1, 'recorder')])
    nprod = 1 + tape.draw(3)
    flush_interval = tape.choice([0.1, 0.05, 1.0, 4.0])
    short_close = tape.draw(4) == 3      # close timeout shorter than the flush interval (storage itself is then instant)
    close_early = tape.draw(6) == 5
    slow_p = 0.0 if short_close else tape.choice([0.0, 0.0, 0.3])
    fail_p = tape.choice([0.0, 0.0, 0.15]) if place_mode != 2 else 0.0
    if workload_kind == 'recorder':
        run.probe('recorder_workload')
        return recorder_workload(run, tape, nprod, flush_interval, preempt if place_mode == 0 else 0.0,
                                 {place_idx: place_to} if place_mode == 1 else None)
    prods = gen_workload(tape, run, nprod)
    bulk = tape.draw(40) == 39
    if bulk:
        # one recording with more than a thousand operations, all still pending when close() is called
        nops = tape.choice([1001, 1500, 2300])
        prods = [[{'ordinal': 0, 'category': 'OpA', 'end': 'save', 'pauses': [0] * (nops + 2),
                   'ops': [('set_data', 'k%d' % (i % 7), i) if i % 50 else ('add_metadata', None, {'m%d' % (i % 3): i}) for i in range(nops)]}]]
        nprod, flush_interval, short_close, close_early, slow_p, fail_p, place_mode = 1, 4.0, False, False, 0.0, 0.0, 0
        preempt = 0.0
        run.probe('more_than_1000_operations_pending_at_close')
    if nprod == 3:
        run.probe('three_producers')
    if short_close and flush_interval > 0.5:
        run.probe('close_timeout_shorter_than_flush_interval')
    sim = Sim(tape, run, preempt_p=preempt if place_mode == 0 else 0.0, prim_p=(max(preempt, 0.1) if place_mode == 0 else 0.0),
              target_files=[TARGET], placements={place_idx: place_to} if place_mode == 1 else None, max_steps=3000000 if bulk else 80000,
              timeskip=0.0 if short_close else tape.choice([0.0, 0.3, 0.3]))   # a descheduled flusher may legitimately outlast a short close timeout
    ctx = Ctx(run, sim, tape)
    all_recs = [r for p in prods for r in p]
    total_ops = [(r['ordinal'], n) for r in all_recs for n in range(len(r['ops']) + (1 if r['end'] == 'save' else 0))]
    for tag in total_ops:
        if slow_p and tape.coin(slow_p):
            ctx.slow[tag] = tape.choice([0.01, 0.2, 0.7])
        if fail_p and tape.coin(fail_p):
            ctx.fail.add(tag)
    if place_mode == 2 and total_ops:
        ctx.fail.add(total_ops[fail_idx % len(total_ops)])
    run.config = {'ops': len(total_ops)}
    for p, recs in enumerate(prods):
        for r in recs:
            run.say('producer %d recording #%d %s: %s -> %s' % (p, r['ordinal'], r['category'], ' '.join('%s(%s)' % (o[0], o[1] or '') for o in r['ops']), r['end']))
    run.say('flush_interval=%s preempt=%s mode=%d close_early=%s failing=%s slow=%s' % (flush_interval, preempt, place_mode, close_early, sorted(ctx.fail), sorted(ctx.slow.items())))
    run.ev('workload', [[(r['ordinal'], r['category'], [(o[0], o[1]) for o in r['ops']], r['end']) for r in recs] for recs in prods], sorted(ctx.fail), sorted(ctx.slow.items()))
    Thread, Lock, Event = bound_primitives(sim)
    state = {'requested': {}, 'ids': {}, 'close_invoked_at': None, 'after_close': set(), 'close_returned': False}

    def hook(op, rid, key, value):
        ctx.wrapped_op(op, rid, key, value)
    spyrec.HOOK['fn'] = hook

    def timed(fn, what):
        # callers never wait for the wrapped storage: the invariant is checked where it could break (a wrapped call made
        # while the buffer lock is held, see Ctx.wrapped_op); with a pre-empted thread staying descheduled for a while
        # elapsed virtual time alone says nothing.  Without time skips a producer call takes no virtual time at all.
        t0 = sim.now
        out = fn()
        if sim.now != t0 and not sim.timeskip:
            run.violate('producers_never_wait_for_storage', 'producer-call-took-time', 'producer call %s took %.3f s of simulated time' % (what, sim.now - t0))
        return out

    def producer(p, recs):
        def body():
            for r in recs:
                try:
                    rec = timed(lambda: cassette.create_new_recording(r['category']), 'create_new_recording')
                except AssertionError:
                    return          # cassette already closed
                rid = rec.id
                ctx.ordinal[rid] = r['ordinal']
                state['ids'][r['ordinal']] = rid
                req = state['requested'].setdefault(rid, [])
                def issue(n):
                    op, key, val = r['ops'][n]
                    if r['pauses'][n]:
                        sim.sleep(r['pauses'][n])
                    if op == 'set_data':
                        timed(lambda: rec.set_data(key, val), 'set_data')
                    else:
                        timed(lambda: rec.add_metadata(val), 'add_metadata')
                    # "requested before close" = the call returned before close() was invoked
                    after = state['close_invoked_at'] is not None
                    req.append((op, key, val, after))
                relay = r.get('relay')
                n = 0
                while n < len(r['ops']):
                    if relay and n == relay[0]:
                        def helper(lo=relay[0], hi=relay[1]):
                            for m in range(lo, hi):
                                issue(m)
                        h = sim.spawn(helper, name='helper%d' % r['ordinal'])
                        sim.join(h)
                        n = relay[1]
                        continue
                    issue(n)
                    n += 1
                if r['pauses'][-1]:
                    sim.sleep(r['pauses'][-1])
                if r['end'] == 'save':
                    timed(lambda: cassette.save_recording(rec), 'save_recording')
                    after = state['close_invoked_at'] is not None
                    req.append(('save', None, None, after))
                elif r['end'] == 'abort':
                    timed(lambda: cassette.abort_recording(rec), 'abort_recording')
        return body

    def main():
        cassette.start()
        tasks = [sim.spawn(producer(p, recs), name='producer%d' % p) for p, recs in enumerate(prods)]
        if close_early:
            run.probe('close_while_producer_running')
            sim.sleep(tape.choice([0.0, 0.05, 0.2]))
        else:
            for t in tasks:
                sim.join(t)
        # (reach probe only: internals may be organised differently, the oracle does not depend on them)
        buf = getattr(cassette, '_recording_operation_buffer', None)
        pending = len(buf) if buf is not None and hasattr(buf, '__len__') else 0
        state['close_invoked_at'] = sim.now
        if pending:
            run.probe('final_flush_had_work')
        cassette.close()
        state['close_returned'] = True
        flusher = getattr(cassette, '_update_recording_thread', None)
        state['flusher_alive_after_close'] = flusher.is_alive() if flusher is not None else any(
            t.name != 'main' and not t.name.startswith(('producer', 'helper')) and t.state not in ('done', 'dead') for t in sim.tasks)
        for t in tasks:
            sim.join(t)

    with seams.rebind(sim_names(sim, Thread, Lock, Event)):
        wrapped = SpyWrapped(ctx)
        # assumption: storage delay stays below the close timeout
        cassette = AM.AsyncRecordOnlyTapeCassette(wrapped, flush_interval=flush_interval,
                                                  timeout_on_close=0.5 if short_close else tape.choice([10, 60]) + 2 * sum(ctx.slow.values()))
        ctx.cassette = cassette
        try:
            sim.run_main(main)
        except SimDeadlock as ex:
            run.violate('close_returns', 'deadlock', 'simulated deadlock: %s' % ex)
            return run
        except SimLimit as ex:
            run.violate('close_returns', 'livelock', 'step / time cap reached: %s' % ex)
            return run
        finally:
            spyrec.HOOK['fn'] = None
    run.config['line_points'] = sim.line_points
    run.nontrivial = sim.switches > len(prods) + 2 or bool(ctx.fail) or bool(ctx.slow)
    if run.probes.get('lock_contended'):
        run.probe('flush_while_producer_mid_append')
    # ---- oracle: per recording the applied operations are exactly the requested ones, once, in order
    run.check(ctx.closed_wrapped, 'close_closes_wrapped', 'wrapped-not-closed', 'close() did not close the wrapped cassette')
    if state.get('flusher_alive_after_close'):
        run.violate('close_flushes', 'flusher-alive-after-close', 'close() returned while the flusher was still running although storage delay is far below the timeout')
    for rid, req in sorted(state['requested'].items()):
        must = [(o, k) for (o, k, v, after) in req if not after]
        may = [(o, k) for (o, k, v, after) in req]
        applied = [(o.replace('FAILED-', ''), k) for (o, k) in ctx.applied.get(rid, [])]
        ok = applied[:len(must)] == must and applied == may[:len(applied)]
        if not ok:
            lost = len(applied) < len(must)
            dup = len(applied) > len(may)
            what = 'lost' if lost else ('duplicated' if dup else 'reordered')
            run.violate('applied_exactly_once_in_order', 'operations-%s' % what,
                        'recording %s (#%s): requested %s, applied to the wrapped recording %s' % (rid, ctx.ordinal.get(rid), must, applied))
    # ---- oracle: stored state equals the synchronous twin (failed operations removed)
    twin = InMemoryTapeCassette()
    expect = {}
    for rid, req in state['requested'].items():
        applied = ctx.applied.get(rid, [])
        data, meta, saved = {}, {}, False
        for n, (o, k, v, after) in enumerate(req):
            if n >= len(applied):
                break
            if applied[n][0].startswith('FAILED-'):
                continue
            if o == 'set_data':
                data[k] = v
            elif o == 'add_metadata':
                meta.update(v)
            else:
                saved = True
        if saved:
            expect[rid] = (data, meta)
    stored = set(wrapped._recordings.keys())
    if stored != set(expect):
        run.violate('same_as_synchronous', 'stored-set-differs:%s' % ('missing' if set(expect) - stored else 'extra'),
                    'wrapped cassette holds %s, the synchronous twin would hold %s' % (sorted(stored), sorted(expect)))
    for rid in sorted(stored & set(expect)):
        got = wrapped.get_recording(rid)
        data, meta = expect[rid]
        same = sorted(got.get_all_keys()) == sorted(data) and all(V.canon(got.get_data(k)) == V.canon(data[k]) for k in data) and V.canon(got.get_metadata()) == V.canon(meta)
        run.check(same, 'same_as_synchronous', 'stored-content-differs', lambda: 'recording %s stored with other content than the synchronous twin' % rid)
    run.ev('result', sorted((ctx.ordinal.get(r), a) for r, a in ctx.applied.items()), sorted(ctx.ordinal.get(r) for r in stored), round(sim.now, 4))
    return run


def recorder_workload(run, tape, nprod, flush_interval, preempt, placements):
    """Real TapeRecorder operations (one recorder per producer thread) over one shared async cassette; the stored
    recordings must equal the same operations recorded straight into an in-memory cassette."""
    V.FLAVOUR['objects'], V.FLAVOUR['sharing'] = False, False
    specs = []
    for p in range(nprod):
        spec = R.gen_service(tape, run, max_steps=5, max_inputs=2, max_outputs=1)
        for i in spec.inputs:
            i.nested = None
        R.fill_outcomes(tape, run, spec)
        spec.op.extractor = 'ok'
        spec.op.name = ['OpA', 'OpB', 'OpAB'][p]
        specs.append(spec)
        run.say('producer %d: %s' % (p, ' | '.join(spec.describe())[:300]))
    sim = Sim(tape, run, preempt_p=preempt, prim_p=max(preempt, 0.1) if preempt else 0.0, target_files=[TARGET], placements=placements, max_steps=80000)
    ctx = Ctx(run, sim, tape)
    Thread, Lock, Event = bound_primitives(sim)
    spyrec.HOOK['fn'] = lambda op, rid, key, value: ctx.applied.setdefault(rid, []).append((op, key))
    outs = {}
    with seams.rebind(sim_names(sim, Thread, Lock, Event)):
        wrapped = SpyWrapped(ctx)
        cassette = AM.AsyncRecordOnlyTapeCassette(wrapped, flush_interval=flush_interval)
        ctx.cassette = cassette

        def producer(p):
            def body():
                outs[p] = R.record_once(specs[p], run, cassette, rseed=p)
            return body

        def main():
            cassette.start()
            tasks = [sim.spawn(producer(p), name='producer%d' % p) for p in range(nprod)]
            for t in tasks:
                sim.join(t)
            cassette.close()
        try:
            sim.run_main(main)
        except SimDeadlock as ex:
            run.violate('close_returns', 'deadlock', 'simulated deadlock: %s' % ex)
            return run
        except SimLimit as ex:
            run.violate('close_returns', 'livelock', str(ex))
            return run
        finally:
            spyrec.HOOK['fn'] = None
    run.config['line_points'] = sim.line_points
    run.nontrivial = sim.switches > nprod + 2
    # synchronous twin: the same services recorded straight into an in-memory cassette
    for p in range(nprod):
        rec = outs.get(p)
        if rec is None or not rec.saved:
            run.violate('same_as_synchronous', 'recorder-run-not-saved', 'producer %d: operation not saved through the async cassette' % p)
            continue
        direct = InMemoryTapeCassette()
        twin = R.record_once(specs[p], run, direct, rseed=p)
        a = wrapped._recordings.get(rec.rec_id)
        if a is None:
            run.violate('same_as_synchronous', 'stored-set-differs:missing', 'recording of producer %d missing from the wrapped cassette after close()' % p)
            continue
        ra, rb = wrapped.get_recording(rec.rec_id), direct.get_recording(twin.rec_id)
        vol = (TapeRecorder.DURATION, TapeRecorder.RECORDED_AT)
        same = sorted(ra.get_all_keys()) == sorted(rb.get_all_keys()) and all(V.canon(ra.get_data(k)) == V.canon(rb.get_data(k)) for k in rb.get_all_keys()) and \
            V.canon(dict((k, v) for k, v in ra.get_metadata().items() if k not in vol)) == V.canon(dict((k, v) for k, v in rb.get_metadata().items() if k not in vol))
        run.check(same, 'same_as_synchronous', 'recorder-content-differs', lambda: 'producer %d: recording stored through the async cassette differs from direct recording' % p)
    run.ev('recorder', sorted((a, len(b)) for a, b in ctx.applied.items()), round(sim.now, 4))
    return run


def run_index(i, seed, tier, emit):
    mod = sys.modules[__name__]
    t = Tape(seed, prefix=[1, (1 << 20) - 1, 0, 0, 0, 0])      # placement beyond the end: the unperturbed schedule
    dry = safe_run_tape(mod, t)
    emit(dry, t)
    n_points = dry.config.get('line_points', 0)
    cap = 80 if tier == 'quick' else 400
    stride = max(1, n_points // cap)
    for idx in range(0, n_points, stride):
        for to in (0, 1, 2, 3):
            tt = Tape(seed, prefix=[1, idx, to, 0, 0, 0])
            emit(safe_run_tape(mod, tt), tt)
    for k in range(dry.config.get('ops', 0)):
        tt = Tape(seed, prefix=[2, 0, 0, k, 0, 0])
        emit(safe_run_tape(mod, tt), tt)
    for k in range(30 if tier == 'quick' else 120):
        tt = Tape(seed * 1000 + k, prefix=[0])
        emit(safe_run_tape(mod, tt), tt)
