"""C10 Lookup returns exactly the matching recordings, identically on all cassettes (DESIGN.md section 4, C10)."""
import copy

from simkit import seams
from simkit import values as V
from simkit.core import Run

from playback.tape_recorder import TapeRecorder
from playback.studio.recordings_lookup import find_matching_recording_ids, RecordingLookupProperties

from engines import cassettes as C
from engines import storage as S
from engines import recplay as R

PROP = 'C10'
INC = TapeRecorder.INCOMPLETE_RECORDING

META = {
    'engine': 'storage',
    'level': 'exploration',
    'level_text': ('Seeded histories: the same logical set of 0-25 recordings (categories that are prefixes of one another / contain underscores, metadata '
                   'with absent keys, complete / incomplete / unflagged, some produced by the real recorder) is written to the in-memory, file and '
                   'S3 cassettes (key prefixes incl. the default empty one, page sizes 1 / 2 / 1000, tape-chosen directory order, restarts), then '
                   '~30 lookups per history (category x filter kinds x limits 1..n+1 x ordered / random, with and without skip-incomplete) are '
                   'compared with a reference store and across the three cassettes. Also: S3 key prefixes spelt with the words of the key layout (metadata, svc/metadata, metadata/v2, full), and annotation of stored recordings through ANOTHER cassette object between two lookups of a long-lived one. A recording saved while a lazy lookup is still being consumed. A storage-class threshold on the S3 store; ids whose text order is unrelated to creation order. Callers that change their metadata objects after the save.'),
    'level_note': 'Trusted: ModelStore / model_match with explicit don\'t-care cells, fake S3 listing (UTF-8 order, continuation by last key), os.listdir order proxy. limit is a positive integer or None.',
    'rule': ('evaluation = one history with its lookups on three cassettes; non-trivial = at least one lookup had both matching and non-matching recordings '
             'of the asked category or a sibling category; distinct = distinct event-log digest.'),
    'assumptions': ['metadata values are JSON-native (None, bool, numbers, strings, lists, dicts)', 'limit is None or a positive integer',
                    'no time window here (C16)'],
    'components_real': ['iter_recording_ids of the three cassettes', 'S3BasicFacade.iter_keys', 'TapeCassette.match_against_recorded_metadata',
                        'find_matching_recording_ids', 'TapeRecorder (for recorder-made recordings)'],
    'components_stub': ['S3 bucket', 'directory listing order', 'uuid / clock'],
    'budgets': {'quick': {'seconds': 35}, 'thorough': {'seconds': 480}},
    'required_probes': {'thorough': ['s3_default_empty_prefix', 'category_prefix_sibling', 'filter_absent_key', 'filter_list', 'filter_operator', 'filter_pattern',
                                     'limit_below_matches', 'random_order', 'skip_incomplete_lookup', 'recorder_made_recording', 'restart', 'interleaved_lookups', 'saved_twice_under_one_id', 'failed_save_in_history']},
}


class ListdirProxy(object):
    """`os` for the file cassette: listdir returns a tape-chosen permutation."""

    def __init__(self, tape):
        self.tape = tape
        import os
        self._os = os

    def listdir(self, d):
        return self.tape.shuffle(sorted(self._os.listdir(d)))

    def __getattr__(self, name):
        return getattr(self._os, name)


def run_tape(tape):
    with seams.deterministic(tape, scrambled_ids=True) as clock:
        with seams.rebind([('playback.tape_cassettes.file_based.file_based_tape_cassette', 'os', ListdirProxy(tape))]):
            run = Run(PROP)
            stores = []
            try:
                scenario(run, tape, clock, stores)
            finally:
                for st in stores:
                    st.close()
            return run


def gen_filter(tape, run, universe):
    """A metadata filter dict (or None) over the small key universe."""
    if tape.draw(5) == 0:
        return None
    f = {}
    for _ in range(1 + tape.draw(2)):
        key = tape.choice(S.META_KEYS)
        kind = tape.weighted([(3, 'plain'), (2, 'pattern'), (2, 'list'), (2, 'operator'), (1, 'none')])
        vals = [md[key] for md in universe if key in md] or [1]
        base = tape.choice(vals) if tape.draw(4) else S.gen_json_value(tape, 0)
        if kind == 'plain':
            f[key] = base if not isinstance(base, list) else (base[0] if base else 0)
        elif kind == 'pattern':
            f[key] = tape.choice(['a*', '*', '?b', '[ab]*', 'ab', '*b*'])
            run.probe('filter_pattern')
        elif kind == 'list':
            f[key] = [x for x in [base if not isinstance(base, list) else 0, tape.choice(S.JSON_ATOMS), None][:1 + tape.draw(3)]]
            run.probe('filter_list')
        elif kind == 'operator':
            ref = base if isinstance(base, (int, float, str)) and not isinstance(base, bool) else tape.choice([0, 1, 1.5, 'a', 'b'])
            f[key] = {'operator': tape.choice(['=', '<', '<=', '>', '>=']), 'value': ref}
            run.probe('filter_operator')
        else:
            f[key] = None
        if any(key not in md for md in universe):
            run.probe('filter_absent_key')
    return f


def scenario(run, tape, clock, stores):
    mem = C.Store('memory', clock=clock)
    fil = C.Store('file', clock=clock)
    prefix = tape.choice(['', '', 'a', 'ab', 'a/b'] + C.S3_LAYOUT_PREFIXES)
    if prefix in C.S3_LAYOUT_PREFIXES:
        run.probe('s3_prefix_spelt_with_layout_words')
    s3 = C.Store('s3', key_prefix=prefix, clock=clock, page_size=tape.choice([1000, 1, 2]))
    s3.ia_kb = tape.choice([None, None, 0.001, 0.3])
    if s3.ia_kb is not None:
        run.probe('s3_infrequent_access_threshold')
    stores.extend([mem, fil, s3])
    if prefix == '':
        run.probe('s3_default_empty_prefix')
    cass = {'memory': mem.open(), 'file': fil.open(), 's3': s3.open()}
    C.set_world(s3.world)
    # foreign objects and a sibling cassette in the same bucket
    s3.world.bucket('bkt')['other/x'] = (b'1', s3.world.now_utc(), {})
    n = tape.draw(26)
    model = S.ModelStore()
    ids = {'memory': {}, 'file': {}, 's3': {}}      # logical index -> id
    cats = [tape.choice(S.CATEGORIES) for _ in range(n)]
    universe = []
    run.say('s3 key prefix %r page size %d; %d recordings' % (prefix, s3.world.page_size, n))
    for i in range(n):
        md = S.gen_metadata(tape)
        flag = tape.choice(['complete', 'complete', 'incomplete', 'unflagged'])
        if flag == 'complete':
            md[INC] = False
        elif flag == 'incomplete':
            md[INC] = True
        by_recorder = tape.draw(6) == 5
        resave = tape.draw(8) == 7
        if resave and not by_recorder:
            run.probe('saved_twice_under_one_id')
        touched = tape.draw(4) == 3 and not by_recorder    # the caller goes on using (and changing) its metadata objects after the save
        if touched:
            run.probe('metadata_objects_changed_by_the_caller_after_the_save')
        universe.append(md)
        for name in ('memory', 'file', 's3'):
            cas = cass[name]
            if by_recorder:
                # produced by the real recorder: framework metadata keys are present
                run.probe('recorder_made_recording')
                spec = R.ServiceSpec()
                spec.op.name = cats[i]
                spec.op.extractor = 'ok'
                spec.user_metadata = dict((k, v) for k, v in md.items() if k != INC)
                spec.body = [['interrupt']] if flag == 'incomplete' else []
                rec = R.record_once(spec, run, cas, rseed=1)
                ids[name][i] = rec.rec_id
            else:
                r = cas.create_new_recording(cats[i])
                r.set_data('k', i)
                mine = copy.deepcopy(md)
                r.add_metadata(mine)
                cas.save_recording(r)
                if resave:
                    cas.save_recording(r)      # saved again under the same id: still one recording
                if touched:
                    # what is stored and looked up is the metadata as it was when the recording was saved
                    for k_ in sorted(mine, key=repr):
                        if isinstance(mine[k_], list):
                            mine[k_].append('changed-after-save')
                        elif isinstance(mine[k_], dict):
                            mine[k_]['changed-after-save'] = 1
                    mine['changed-after-save'] = True
                ids[name][i] = r.id
        if tape.draw(10) == 9:
            # a save that fails because a value cannot be serialized: nothing may be listed for it, listings keep working
            run.probe('failed_save_in_history')
            resave = tape.draw(2) == 1 and not by_recorder      # the failing save is a second save of the recording just stored
            if resave:
                run.probe('failed_second_save_of_a_stored_recording')
            for name in ('memory', 'file', 's3'):
                cas = cass[name]
                if resave:
                    r = cas.get_recording(ids[name][i])          # (its earlier version must stay listed and fetchable)
                else:
                    r = cas.create_new_recording(cats[i])
                    r.add_metadata(copy.deepcopy(md))
                r.set_data('k2', R.D.Unserializable(2))
                try:
                    cas.save_recording(r)
                except Exception:
                    pass
        if by_recorder:
            md = dict(md)
            md[INC] = flag == 'incomplete'
            universe[-1] = md
        model.save(i, cats[i], md, {})
        run.say('#%d %s %s %s' % (i, cats[i], 'recorder-made' if by_recorder else 'direct', V.short(dict((k, v) for k, v in md.items()), 150)))
        if tape.draw(10) == 9:
            cass['file'] = fil.open()
            cass['s3'] = s3.open()
            C.set_world(s3.world)
            run.probe('restart')
    run.ev('history', cats, [V.srepr(m) for m in universe], prefix)
    nlook = 8 + tape.draw(30)
    for q in range(nlook):
        if n and tape.draw(5) == 4:
            # between two lookups a stored recording is annotated through ANOTHER cassette object over the same durable
            # state (fetch, add metadata, save again under its id); the long-lived cassette objects used for the lookups
            # must answer from what is stored now
            i = tape.draw(n)
            delta = dict((k, S.gen_json_value(tape)) for k in S.META_KEYS if tape.draw(3) == 2)
            if tape.draw(3) == 2:
                delta[INC] = bool(tape.draw(2))
            if delta:
                run.probe('annotated_through_another_cassette_object')
                writers = {'memory': cass['memory'], 'file': fil.open(), 's3': s3.open()}
                C.set_world(s3.world)
                for name in ('memory', 'file', 's3'):
                    r = writers[name].get_recording(ids[name][i])
                    r.add_metadata(copy.deepcopy(delta))
                    writers[name].save_recording(r)
                md2 = dict(universe[i])
                md2.update(delta)
                universe[i] = md2
                model.save(i, cats[i], md2, {})
                run.say('annotate #%d with %s' % (i, V.short(delta, 150)))
                run.ev('annotate', i, V.srepr(delta))
        cat = tape.choice(S.CATEGORIES)
        skip_lookup = tape.draw(4) == 3
        filt = gen_filter(tape, run, universe)
        limit = None if tape.draw(2) else 1 + tape.draw(n + 2)
        rnd = tape.draw(4) == 3
        if rnd:
            run.probe('random_order')
        interleave = tape.draw(4) == 3 and not skip_lookup
        other_cat = tape.choice(S.CATEGORIES)
        other_filt = gen_filter(tape, run, universe) if interleave else None
        save_meanwhile = None
        if interleave:
            run.probe('interleaved_lookups')
            if tape.draw(3) == 2 and other_cat != cat:
                # ... and the service saves a new recording (of another category) while the lookup is still being consumed
                save_meanwhile = (len(cats), S.gen_metadata(tape))
                run.probe('save_while_lookup_in_flight')
        eff = copy.deepcopy(filt)
        if skip_lookup:
            run.probe('skip_incomplete_lookup')
            eff = dict(eff or {})
            eff[INC] = [False, None]
        definite, dontcare = model.lookup(cat, eff)
        siblings = [i for i in range(len(cats)) if cats[i] != cat and (cats[i].startswith(cat) or cat.startswith(cats[i]))]
        if siblings:
            run.probe('category_prefix_sibling')
        same_cat = [i for i in range(len(cats)) if cats[i] == cat]
        if definite and (len(definite) < len(same_cat) or siblings):
            run.nontrivial = True
        if limit is not None and limit < len(definite):
            run.probe('limit_below_matches')
        results = {}
        desc = 'lookup #%d category=%s filter=%s limit=%s random=%s skip_incomplete=%s' % (q, cat, V.short(filt, 120), limit, rnd, skip_lookup)
        for name in ('memory', 'file', 's3'):
            cas = cass[name]
            back = dict((v, k) for k, v in ids[name].items())
            try:
                if skip_lookup:
                    props = RecordingLookupProperties(None, metadata=copy.deepcopy(filt), limit=limit, random_sample=rnd, skip_incomplete=True)
                    got = list(find_matching_recording_ids(TapeRecorder(cas), cat, props))
                elif interleave:
                    # a lookup that is still being consumed while another lookup (other category / filter) runs on the same
                    # cassette object
                    it = cas.iter_recording_ids(cat, metadata=copy.deepcopy(filt), limit=limit, random_results=rnd)
                    got = []
                    first = next(it, None)
                    if first is not None:
                        got.append(first)
                    list(cas.iter_recording_ids(other_cat, metadata=copy.deepcopy(other_filt)))
                    if save_meanwhile is not None:
                        r_new = cas.create_new_recording(other_cat)
                        r_new.set_data('k', save_meanwhile[0])
                        r_new.add_metadata(copy.deepcopy(save_meanwhile[1]))
                        cas.save_recording(r_new)
                        ids[name][save_meanwhile[0]] = r_new.id
                        back[r_new.id] = save_meanwhile[0]
                    got.extend(it)
                else:
                    got = list(cas.iter_recording_ids(cat, metadata=copy.deepcopy(filt), limit=limit, random_results=rnd))
            except Exception as ex:
                origin = R.origin_note(ex)
                cause = classify_error(name, prefix, filt, eff, ex)
                run.violate('lookup_answers', 'lookup-raised:%s:%s@%s:%s' % (name, origin[0], origin[1], cause),
                            '%s on %s cassette raised %r' % (desc, name, ex))
                continue
            unknown = [g for g in got if g not in back]
            if unknown:
                run.violate('only_saved_ids', 'unknown-id:%s' % name, '%s on %s returned ids that were never saved: %s' % (desc, name, unknown[:3]))
                continue
            logical = [back[g] for g in got]
            results[name] = set(logical)
            if len(set(logical)) != len(logical):
                run.violate('no_duplicates', 'duplicates:%s' % name, '%s on %s returned duplicates: %s' % (desc, name, got))
            wrong_cat = [i for i in logical if cats[i] != cat]
            if wrong_cat:
                run.violate('exact_category', 'other-category:%s' % name, '%s on %s returned recordings of categories %s' % (desc, name, sorted(set(cats[i] for i in wrong_cat))))
                continue
            bad = [i for i in set(logical) if i not in definite and i not in dontcare]
            if bad:
                run.violate('satisfies_filter', 'non-matching-returned:%s' % name, '%s on %s returned #%s whose metadata %s does not satisfy the filter' % (
                    desc, name, bad[0], V.short(universe[bad[0]], 200)))
                continue
            lo, hi = len(definite), len(definite | dontcare)
            if limit is None:
                missing = definite - set(logical)
                if missing:
                    why = 'all' if len(set(logical)) == 0 else 'some'
                    run.violate('all_matches_returned', 'matches-missing:%s:%s' % (name, why), '%s on %s misses matching recordings %s (returned %s of %d)' % (
                        desc, name, sorted(missing)[:5], len(logical), lo))
            else:
                if not (min(limit, lo) <= len(set(logical)) <= min(limit, hi)):
                    run.violate('limit_respected', 'limit:%s:%s' % (name, 'too-many' if len(logical) > min(limit, hi) else 'too-few'),
                                '%s on %s returned %d ids, expected min(limit, matches)=%d' % (desc, name, len(logical), min(limit, lo)))
            # each one fetchable
            for g in got[:3]:
                try:
                    if cas.get_recording(g) is None:
                        raise ValueError('None')
                except Exception as ex:
                    run.violate('returned_ids_fetch', 'unfetchable:%s' % name, '%s on %s returned id %s that does not fetch: %r' % (desc, name, g, ex))
        if save_meanwhile is not None:
            cats.append(other_cat)
            universe.append(save_meanwhile[1])
            model.save(save_meanwhile[0], other_cat, save_meanwhile[1], {})
        if limit is None and not dontcare and len(results) == 3 and not (results['memory'] == results['file'] == results['s3']):
            run.violate('same_on_all_cassettes', 'cassettes-disagree', '%s: memory %s file %s s3 %s' % (desc, sorted(results['memory']), sorted(results['file']), sorted(results['s3'])))
        run.ev('lookup', q, cat, V.srepr(filt), limit, rnd, skip_lookup, sorted(definite), sorted(dontcare), sorted((k, sorted(v)) for k, v in results.items()))
    return run


def classify_error(name, prefix, filt, eff, ex):
    if name == 's3' and prefix == '' and isinstance(ex, AttributeError):
        return 'empty-key-prefix'
    if isinstance(ex, KeyError):
        return 'absent-key'
    if isinstance(ex, TypeError):
        return 'matcher-type-error'
    return 'other'
