"""C15 S3 cassette writes are confined: read-only, own prefix, complete-before-visible (DESIGN.md section 4, C15)."""
import sys

from simkit import seams
from simkit import values as V
from simkit import fakes3
from simkit.core import Run
from simkit.runner import safe_run_tape
from simkit.tape import Tape

from playback.tape_cassettes.s3.s3_tape_cassette import S3TapeCassette

from engines import cassettes as C
from engines import storage as S
from engines import recplay as R

PROP = 'C15'
PREFIXES = ['', 'a', 'ab', 'a/b', 'b', 'full_runs', 'metadata_v2', 'a/full_runs', 'a/', 'a/b/', '/abs']
# categories as services name them: class names and route-like names with a leading slash
CATS15 = list(S.CATEGORIES) + ['/api/plan', 'fetch_metadata', 'api/metadata']
FOREIGN = ['tape_recorder_recordings/fullx/full/OpA/20200101/9', 'tape_recorder_recordings/metadata-old/metadata/OpA/20200101/9',
           'tape_recorder_recordings/a/fullness/x', 'other/x', 'tape_recorder_recordingsX/full/OpA/20200101/1', 'tape_recorder_recordings/a_foreign', 'tape_recorder_recordings/abc/full/OpA/20200101/1',
           'tape_recorder_recordings', 'zzz']

META = {
    'engine': 'storage',
    'level': 'fault_enumeration',
    'level_text': ('Seeded call sequences (create, save, get, list, close, with-exit) on 2-5 real S3 cassette objects sharing one in-memory bucket, in every '
                   'combination of read_only / transient / key prefix from {"", a, ab, a/b, b} (string prefixes of one another) next to foreign objects.  '
                   'For every history each individual bucket mutation is a crash point (crash after mutation k, and put k failing): after each a fresh '
                   'read-only cassette lists every category and every discovered id must fetch completely; a concurrent reader sees the same '
                   'intermediate states.  Oracles run on the mutation log and byte contents of the bucket. Also: a storage-class (infrequent access) threshold per cassette and key prefixes with a trailing slash. Leading-slash prefixes and categories; ids whose text order is unrelated to creation order.'),
    'level_note': 'Trusted: fake bucket mutation log with owner attribution, crash injection by mutation number. Completeness is claimed for saves only, not for the clean-up of a transient close. "full" / "metadata" are not used as key prefixes.',
    'rule': ('evaluation = one history, or one history re-run with one crash / failed put placed at one mutation; work item = one history plus all its single '
             'placements; non-trivial = at least one save mutated the bucket next to another cassette\'s or foreign objects; distinct = distinct event-log digest.'),
    'assumptions': ['"full" and "metadata" are not used as key prefix path components', 'python assertions enabled (read-only guard is an assert)'],
    'components_real': ['S3TapeCassette (create, save, get, list, close, context manager)', 'S3BasicFacade'],
    'components_stub': ['boto3 / S3 bucket (in-memory, mutation log, crash points, lazy paging)', 'uuid / clock'],
    'budgets': {'quick': {'seconds': 30}, 'thorough': {'seconds': 480}},
    'required_probes': {'thorough': ['infrequent_access_threshold', 'prefix_with_trailing_slash', 'read_only_cassette_called', 'transient_closed', 'crash_between_the_two_puts', 'put_failed', 'reader_saw_intermediate_state',
                                     'shared_bucket_prefix_of_prefix', 'context_manager_exit']},
}


def own_root(prefix):
    return 'tape_recorder_recordings/' + ((prefix + '/') if prefix else '')


def owns(prefix, key):
    root = own_root(prefix)
    return key.startswith(root + 'full/') or key.startswith(root + 'metadata/')


def reader_check(run, world, prefix, saved, label):
    """A fresh read-only cassette lists every category; every discovered id must fetch completely."""
    old_owner = world.owner
    world.owner = 'reader'
    try:
        cas = S3TapeCassette('bkt', key_prefix=prefix, read_only=True)
    finally:
        world.owner = old_owner
    obs = world.observers
    world.observers = []
    try:
        for cat in CATS15:
            try:
                ids = list(cas.iter_recording_ids(cat))
            except Exception as ex:
                run.violate('discovered_is_fetchable', 'listing-raised:%s' % type(ex).__name__, '%s: listing %s under prefix %r raised %r' % (label, cat, prefix, ex))
                continue
            for rid in ids:
                exp = saved.get((prefix, rid))
                try:
                    r = cas.get_recording(rid)
                    md = cas.get_recording_metadata(rid)
                except Exception as ex:
                    run.violate('discovered_is_fetchable', 'discovered-not-fetchable:%s' % type(ex).__name__,
                                '%s: lookup discovers %s under prefix %r but fetching it raised %r' % (label, rid, prefix, ex))
                    continue
                if exp is None:
                    continue     # written by a sibling history object we do not model (never happens) or foreign
                data, metadata = exp
                ok = sorted(r.get_all_keys()) == sorted(data) and all(V.canon(r.get_data(k)) == V.canon(data[k]) for k in data) and \
                    V.canon(r.get_metadata()) == V.canon(metadata) and V.canon(md) == V.canon(metadata)
                run.check(ok, 'discovered_is_fetchable', 'discovered-incomplete', lambda: '%s: discovered %s is not what was saved' % (label, rid))
    finally:
        world.observers = obs


def run_tape(tape):
    with seams.deterministic(tape, scrambled_ids=True) as clock:
        return _run(tape, clock)


def _run(tape, clock):
    run = Run(PROP)
    fault_mode = tape.draw(4)           # 0 none, 1 crash after mutation k, 2 put k fails once, 3 puts of one kind of object keep failing
    k = tape.draw(4096)
    world = fakes3.World(clock=clock.utc, page_size=tape.choice([1000, 1, 2]))
    C.set_world(world)
    for n, key in enumerate(FOREIGN):
        if tape.draw(3) < 2:
            world.bucket('bkt')[key] = (b'foreign-%d' % n, world.now_utc(), {})
    ncas = 2 + tape.draw(4)
    cass = []
    for n in range(ncas):
        cfg = {'prefix': tape.choice(PREFIXES), 'read_only': tape.draw(3) == 2, 'transient': tape.draw(3) == 2, 'name': 'c%d' % n,
               'ia': tape.choice([None, None, 0.001, 0.4])}        # storage class threshold in KB: objects above it go to STANDARD_IA
        if cfg['ia'] is not None:
            run.probe('infrequent_access_threshold')
        if cfg['prefix'].endswith('/'):
            run.probe('prefix_with_trailing_slash')
        world.owner = cfg['name']
        cfg['obj'] = S3TapeCassette('bkt', key_prefix=cfg['prefix'], read_only=cfg['read_only'], transient=cfg['transient'],
                                    infrequent_access_kb_threshold=cfg['ia'])
        world.owner = None
        cfg['closed'] = False
        cass.append(cfg)
        run.say('%s: prefix=%r read_only=%s transient=%s' % (cfg['name'], cfg['prefix'], cfg['read_only'], cfg['transient']))
    prefixes = sorted(set(c['prefix'] for c in cass))
    if any(a != b and (b.startswith(a)) for a in prefixes for b in prefixes):
        run.probe('shared_bucket_prefix_of_prefix')
    saved = {}            # (prefix, id) -> (data, metadata) of completed saves
    pending = {}
    attempted = []
    failed_saves = []
    current_save = None
    open_recs = dict((c['name'], []) for c in cass)
    if fault_mode == 1:
        world.crash_after = k
    elif fault_mode == 2:
        world.fail_put = k
    elif fault_mode == 3:
        world.fail_put_keys = ['/full/'] if k % 2 == 0 else ['/metadata/']
        run.fault('put_keeps_failing')

    def observer(seq, op, key):
        if op != 'put':
            return      # completeness is claimed for saves only, not for the clean-up of a transient close
        run.probe('reader_saw_intermediate_state')
        merged = dict(saved)
        merged.update(pending)
        for p in prefixes:
            reader_check(run, world, p, merged, 'concurrent reader after mutation %d (%s %s)' % (seq, op, key))
    world.observers.append(observer)
    nops = 4 + tape.draw(20)
    crashed = False
    ops_log = []
    try:
        for n in range(nops):
            c = tape.choice(cass)
            op = tape.weighted([(3, 'create'), (4, 'save'), (2, 'get'), (2, 'list'), (1, 'close'), (1, 'with_exit'), (2, 'get_metadata'), (2, 'retry_save')])
            if op == 'retry_save' and not failed_saves:
                op = 'save'
            before = world.snapshot().get('bkt', {})
            nlog = len(world.log)
            label = '%s.%s' % (c['name'], op)
            if c['read_only']:
                run.probe('read_only_cassette_called')
            try:
                if op == 'create':
                    r = c['obj'].create_new_recording(tape.choice(CATS15))
                    data = dict((kk, V.gen_faithful(tape, run, 1)) for kk in tape.shuffle(S.KEY_TEXTS[:8])[:tape.draw(4)])
                    md = S.gen_metadata(tape)
                    for kk, v in data.items():
                        r.set_data(kk, v)
                    r.add_metadata(md)
                    open_recs[c['name']].append((r, data, md))
                elif op == 'save':
                    if open_recs[c['name']]:
                        r, data, md = open_recs[c['name']].pop(0)
                    else:
                        # a recording object made elsewhere (e.g. by a writable sibling) handed to this cassette
                        donors = [x for x in cass if open_recs[x['name']]]
                        if not donors:
                            continue
                        r, data, md = open_recs[donors[0]['name']].pop(0)
                    pending = {(c['prefix'], r.id): (data, md)}
                    attempted.append((c['prefix'], r.id))
                    current_save = (c, r, data, md)
                    c['obj'].save_recording(r)
                    saved[(c['prefix'], r.id)] = (data, md)
                    pending = {}
                    if tape.draw(6) == 5:
                        failed_saves.append(current_save)      # (a later retry_save saves it once more, unchanged)
                    current_save = None
                elif op == 'get':
                    ids = [rid for (p, rid) in saved if p == c['prefix']]
                    if ids:
                        c['obj'].get_recording(tape.choice(sorted(ids)))
                    else:
                        try:
                            c['obj'].get_recording('OpA/20200101/nothing')
                        except Exception:
                            pass
                elif op == 'retry_save':
                    # the caller retries a save that failed (or saves the same recording again)
                    run.probe('save_retried')
                    c2, r, data, md = failed_saves.pop(0)
                    c = c2
                    label = '%s.%s' % (c['name'], op)
                    pending = {(c['prefix'], r.id): (data, md)}
                    attempted.append((c['prefix'], r.id))
                    c['obj'].save_recording(r)
                    saved[(c['prefix'], r.id)] = (data, md)
                    pending = {}
                elif op == 'get_metadata':
                    # any id this prefix ever tried to save, including saves that stopped half-way
                    ids = sorted(set(rid for (p, rid) in list(saved) + attempted if p == c['prefix']))
                    if ids:
                        try:
                            c['obj'].get_recording_metadata(tape.choice(ids))
                        except Exception:
                            pass
                elif op == 'list':
                    list(c['obj'].iter_recording_ids(tape.choice(CATS15), limit=tape.choice([None, 1, 3])))
                elif op == 'close':
                    c['obj'].close()
                    c['closed'] = True
                elif op == 'with_exit':
                    run.probe('context_manager_exit')
                    with c['obj']:
                        pass
                    c['closed'] = True
                outcome = 'ok'
            except AssertionError:
                outcome = 'refused'
            except fakes3.InjectedS3Error:
                outcome = 'put-failed'
                run.probe('put_failed')
                run.fault('put_raises')
                pending = {}
                if current_save is not None and not c['read_only']:
                    failed_saves.append(current_save)
                current_save = None
            ops_log.append((label, outcome))
            run.say('%s -> %s' % (label, outcome))
            after = world.snapshot().get('bkt', {})
            new = world.log[nlog:]
            # ---- confinement oracles on the mutation log
            for (seq, mop, bucket, key, owner) in new:
                if mop == 'put-failed':
                    continue
                oc = next((x for x in cass if x['name'] == owner), None)
                if oc is None:
                    run.violate('confined_to_own_prefix', 'mutation-by-unknown-owner', 'mutation %s %s by %s' % (mop, key, owner))
                    continue
                if oc['read_only']:
                    run.violate('read_only_never_mutates', 'read-only-%s' % mop, 'read-only cassette %s (prefix %r) performed %s %s during %s' % (oc['name'], oc['prefix'], mop, key, label))
                elif not owns(oc['prefix'], key):
                    run.violate('confined_to_own_prefix', 'outside-own-prefix:%s' % mop, 'cassette %s with key prefix %r performed %s on %s during %s' % (oc['name'], oc['prefix'], mop, key, label))
                if mop == 'delete' and not (op in ('close', 'with_exit') and oc['transient']):
                    run.violate('delete_only_on_transient_close', 'unexpected-delete', '%s deleted %s during %s' % (oc['name'], key, label))
            if op in ('close', 'with_exit') and outcome == 'ok':
                changed = [kk for kk in set(before) | set(after) if before.get(kk) != after.get(kk)]
                if c['transient'] and not c['read_only']:
                    run.probe('transient_closed')
                    left = [kk for kk in after if owns(c['prefix'], kk)]
                    run.check(not left, 'transient_close_removes_own', 'own-recordings-left', lambda: 'transient close of %s left %s' % (c['name'], left[:3]))
                    others = [kk for kk in changed if not owns(c['prefix'], kk)]
                    run.check(not others, 'transient_close_touches_nothing_else', 'foreign-object-changed', lambda: 'transient close of %s (prefix %r) changed %s' % (c['name'], c['prefix'], others[:3]))
                    for key2 in list(saved):
                        if key2[0] == c['prefix']:
                            del saved[key2]
                else:
                    run.check(not changed, 'close_of_non_transient_changes_nothing', 'close-changed-bucket', lambda: 'close of %s (read_only=%s transient=%s) changed %s' % (c['name'], c['read_only'], c['transient'], changed[:3]))
            if any(m[1] in ('put', 'delete') for m in new) and before:
                run.nontrivial = True
    except fakes3.SimCrash as ex:
        crashed = True
        run.fault('crash_after_mutation')
        run.say('CRASH: %s' % ex)
        last = world.log[-1] if world.log else None
        if last is not None and '/full/' in last[3]:
            run.probe('crash_between_the_two_puts')
        world.crash_after = None
    world.observers = []
    # ---- after the history (or the crash): everything discoverable is completely fetchable, on every prefix
    in_cleanup = crashed and world.log and world.log[-1][1] == 'delete'
    if not in_cleanup:
        for p in prefixes:
            reader_check(run, world, p, saved, 'after %s' % ('crash' if crashed else 'history'))
    run.config = {'mutations': len(world.log)}
    run.ev('history', [(c['name'], c['prefix'], c['read_only'], c['transient']) for c in cass], ops_log, [(m[1], m[3], m[4]) for m in world.log], crashed)
    return run


def run_index(i, seed, tier, emit):
    mod = sys.modules[__name__]
    t = Tape(seed, prefix=[0])
    dry = safe_run_tape(mod, t)
    emit(dry, t)
    m = dry.config.get('mutations', 0)
    for k in range(m):
        for mode in (1, 2):
            t = Tape(seed, prefix=[mode, k])
            emit(safe_run_tape(mod, t), t)
    for k in (0, 1):
        t = Tape(seed, prefix=[3, k])
        emit(safe_run_tape(mod, t), t)
