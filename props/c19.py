"""C19 The studio plays each recording once under its own category's tuning (DESIGN.md section 4, C19)."""
import os as _real_os

from simkit import seams
from simkit import values as V
from simkit import dynclasses
from simkit.core import Run
from simkit.fake_mp import FakeMP
from simkit.sim import Sim, SimDeadlock, SimLimit

from playback.studio import equalizer as EQ
from playback.studio.equalizer import EqualityStatus, ComparatorResult, CompareExecutionConfig
from playback.studio.equalizer_tuning import EqualizerTuner, EqualizerTuning
from playback.studio.recordings_lookup import RecordingLookupProperties
from playback.studio.studio import PlaybackStudio
from playback.tape_recorder import TapeRecorder

from engines import cassettes as C
from engines import storage as S
from engines import equalizer as E

PROP = 'C19'

META = {
    'engine': 'studio',
    'level': 'exploration',
    'level_text': ('The real PlaybackStudio, Equalizer and TapeRecorder run over each cassette type (and a sample under simulated multiprocessing): seeded '
                   'sets of recordings over categories that are prefixes of one another (OpA, OpAB, OpA_b, OpB), explicit id lists in tape-chosen order '
                   'or lookup-driven selection (with incomplete recordings and limits), a tuner that fails for a tape-chosen subset of categories, and '
                   'the per-category result generators consumed in a tape-chosen interleaving.  A journal written by the playback function, extractor '
                   'and comparator of every tuning proves who played what. Also: 22+ explicit ids of one category (the default lookup limit is 20) and lookup limits given next to explicit ids. A recording saved while the result generators are still being consumed.'),
    'level_note': 'Trusted: routing journal (harness-owned tunings), fake S3 / directory order, fake multiprocessing for the dedicated-process sample.',
    'rule': ('evaluation = one studio run; non-trivial = at least two categories with recordings where one category name is a prefix of another, or a failing '
             'tuner, or interleaved consumption; distinct = distinct event-log digest.'),
    'assumptions': ['explicit id lists do not name the same recording twice', 'one studio run at a time on a recorder'],
    'components_real': ['PlaybackStudio', 'find_matching_recording_ids', 'Equalizer', 'TapeRecorder.play', 'in-memory / file / S3 cassettes'],
    'components_stub': ['S3 bucket, directory listing order', 'multiprocessing (sample runs)', 'tunings (journaling)'],
    'budgets': {'quick': {'seconds': 30}, 'thorough': {'seconds': 480}},
    'required_probes': {'thorough': ['explicit_ids', 'lookup_driven', 'tuner_failed', 'interleaved_consumption', 'cassette_memory', 'cassette_file', 'cassette_s3',
                                     'dedicated_process_sample', 'prefix_sibling_categories', 'more_than_20_ids_of_one_category', 'explicit_ids_with_lookup_limit']},
}


class ListdirProxy(object):
    def __init__(self, tape):
        self.tape = tape

    def listdir(self, d):
        return self.tape.shuffle(sorted(_real_os.listdir(d)))

    def __getattr__(self, name):
        return getattr(_real_os, name)


def run_tape(tape):
    with seams.deterministic(tape) as clock:
        with seams.rebind([('playback.tape_cassettes.file_based.file_based_tape_cassette', 'os', ListdirProxy(tape))]):
            run = Run(PROP)
            store = C.gen_store(tape, clock, nonempty_prefix=False)
            run.probe('cassette_' + store.kind)
            try:
                scenario(run, tape, clock, store)
            finally:
                store.close()
            return run


def build_ops(recorder, journal_state):
    ops = {}
    for cat in S.CATEGORIES:
        def make(cat):
            class Op(object):
                @recorder.operation()
                def execute(self, tag):
                    if journal_state.get('interrupt') == tag:
                        raise dynclasses.Interrupt()
                    return {'tag': tag, 'category': cat, 'v': self.read(tag)}

                @recorder.intercept_input('read')
                def read(self, tag):
                    return 'value-of-%s' % tag
            Op.__name__ = cat
            dynclasses.register(cat, Op)
            return Op
        ops[cat] = make(cat)
    return ops


class Tuner(EqualizerTuner):
    def __init__(self, ops, tag_of, journal, failing):
        self.ops, self.tag_of, self.journal, self.failing = ops, tag_of, journal, failing
        self.created = []
        self.failure = lambda: KeyError('no tuning')      # what a category without tuning raises (set by the scenario)
        self.hang = None          # (recording id, sim): that replay hangs past the timeout (dedicated-process runs only)

    def create_category_tuning(self, category):
        self.created.append(category)
        if category in self.failing:
            raise self.failure()
        ops, tag_of, journal = self.ops, self.tag_of, self.journal
        token = 'tuning-%s-%d' % (category, len(self.created))

        tuner = self

        def playback_function(recording):
            journal.append(('play', category, recording.id, token))
            if tuner.hang is not None and tuner.hang[0] == recording.id:
                tuner.hang[1].sleep(1e7)
            ops[category]().execute(tag_of[recording.id])

        def extractor(outputs):
            val = next(o.value['args'][0] for o in outputs if TapeRecorder.OPERATION_OUTPUT_ALIAS in o.key)
            journal.append(('extract', category, val.get('tag') if isinstance(val, dict) else None, token))
            return val

        def comparator(recorded, replayed, **data):
            journal.append(('compare', category, recorded.get('tag'), token))
            return ComparatorResult(EqualityStatus.Equal if recorded == replayed else EqualityStatus.Different, 'by %s for %s' % (token, recorded.get('tag')))

        def data_extractor(recording):
            journal.append(('data', category, recording.id, token))
            return {'rid': recording.id}
        return EqualizerTuning(playback_function, extractor, comparator, data_extractor)


def scenario(run, tape, clock, store):
    cas = store.open()
    recorder = TapeRecorder(cas)
    recorder.enable_recording()
    jstate = {}
    ops = build_ops(recorder, jstate)
    tag_of, cat_of, incomplete = {}, {}, set()
    many = tape.draw(8) == 7
    n = 22 + tape.draw(6) if many else 1 + tape.draw(12)
    if many:
        # at least 22 recordings of one category (the studio's default lookup limit is 20), a few of a sibling category
        main_cat = tape.choice(S.CATEGORIES[:2])
        cats_used = [main_cat] * n + [tape.choice(S.CATEGORIES) for _ in range(tape.draw(4))]
        n = len(cats_used)
    else:
        cats_used = [tape.choice(S.CATEGORIES) for _ in range(n)]
    spy_ids = []
    for i, cat in enumerate(cats_used):
        tag = 't%d' % i
        inc = tape.draw(6) == 5 and not (many and i < 22)
        jstate['interrupt'] = tag if inc else None
        before = set(all_ids(store, cas))
        try:
            ops[cat]().execute(tag)
        except dynclasses.Interrupt:
            pass
        new = [x for x in all_ids(store, cas) if x not in before]
        if len(new) != 1:
            run.probe('setup_recording_not_found')
            return
        rid = new[0]
        tag_of[rid], cat_of[rid] = tag, cat
        if inc:
            incomplete.add(rid)
        spy_ids.append(rid)
    jstate['interrupt'] = None
    recorder.disable_recording()
    present = sorted(set(cats_used))
    if any(a != b and b.startswith(a) for a in present for b in present):
        run.probe('prefix_sibling_categories')
    journal = []
    failing = set(c for c in S.CATEGORIES if tape.draw(5) == 4)
    tuner = Tuner(ops, tag_of, journal, failing)
    fail_kind = tape.choice(['message', 'message', 'no_arguments', 'not_implemented', 'custom'])
    tuner.failure = {'message': lambda: KeyError('no tuning for this category'), 'no_arguments': lambda: KeyError(),
                     'not_implemented': lambda: NotImplementedError(), 'custom': lambda: dynclasses.ErrPayload()}[fail_kind]
    tuner.failure_class = {'message': KeyError, 'no_arguments': KeyError, 'not_implemented': NotImplementedError, 'custom': dynclasses.ErrPayload}[fail_kind]
    if fail_kind != 'message' and failing:
        run.probe('tuner_fails_without_a_message')
    explicit = tape.draw(2) == 1
    dedicated = tape.draw(6) == 5
    cas2 = store.open(read_only=True)
    play_recorder = TapeRecorder(cas2)
    for rid in list(tag_of):
        pass
    # playback classes must be bound to the playing recorder
    ops2 = build_ops(play_recorder, jstate)
    tuner.ops = ops2
    cfg = CompareExecutionConfig(keep_results_in_comparison=bool(tape.draw(2)), compare_in_dedicated_process=dedicated,
                                 compare_process_recycle_rate=1 + tape.draw(3), compare_process_timeout=5)
    if explicit:
        run.probe('explicit_ids')
        complete_ids = [r for r in spy_ids if r not in incomplete]
        k = len(complete_ids) if many else tape.draw(len(complete_ids) + 1)
        selected = tape.shuffle(complete_ids)[:k]
        if not selected:
            selected = complete_ids[:1]
        if not selected:
            return
        # lookup properties given next to explicit ids select nothing: the ids are the selection
        stray_limit = tape.choice([None, None, 1, 2])
        stray = None if stray_limit is None else RecordingLookupProperties(None, limit=stray_limit)
        if stray is not None:
            run.probe('explicit_ids_with_lookup_limit')
        if many:
            run.probe('more_than_20_ids_of_one_category')
        studio = PlaybackStudio(['ignored'], tuner, play_recorder, recording_ids=list(selected), lookup_properties=stray,
                                compare_execution_config=cfg)
        expected_by_cat = {}
        for rid in selected:
            expected_by_cat.setdefault(cat_of[rid], []).append(rid)
        expected_keys = sorted(expected_by_cat)
        limit = None
    else:
        run.probe('lookup_driven')
        categories = tape.shuffle(S.CATEGORIES)[:1 + tape.draw(4)]
        limit = tape.choice([None, None, 1, 2, 5])
        props = RecordingLookupProperties(None, limit=limit, metadata=tape.choice([None, {}]))
        studio = PlaybackStudio(list(categories), tuner, play_recorder, lookup_properties=props, compare_execution_config=cfg)
        expected_by_cat = dict((c, [r for r in spy_ids if cat_of[r] == c and r not in incomplete]) for c in categories)
        expected_keys = list(categories)
    run.say('cassette %s; recordings %s; incomplete %s' % (store.describe(), [(tag_of[r], cat_of[r]) for r in spy_ids], sorted(tag_of[r] for r in incomplete)))
    run.say('%s selection: %s; failing tuners %s; dedicated=%s limit=%s' % ('explicit' if explicit else 'lookup', expected_keys, sorted(failing), dedicated, limit))

    results = {}
    order = []

    def drive():
        try:
            res = studio.play()
        except Exception as ex:
            run.violate('studio_play_returns', 'play-raised:%s' % type(ex).__name__, 'PlaybackStudio.play() raised %r' % (ex,))
            return
        keys = list(res.keys())
        if keys != expected_keys:
            run.violate('deterministic_category_order', 'category-keys', 'result categories %s, expected %s' % (keys, expected_keys))
        gens = {}
        for c, g in res.items():
            if isinstance(g, Exception):
                results[c] = g
            else:
                gens[c] = g
                results[c] = []
        # consume in a tape-chosen interleaving
        live = sorted(gens)
        switches = 0
        last = None
        save_at = 1 + tape.draw(6) if tape.draw(3) == 2 else None      # the service keeps recording while the results are consumed
        steps = 0
        while live:
            steps += 1
            if save_at is not None and steps == save_at:
                run.probe('recording_saved_while_results_are_consumed')
                w = store.open()
                r_new = w.create_new_recording('OpZ_unrelated')
                r_new.set_data('k', 1)
                r_new.add_metadata({'m': 1})
                w.save_recording(r_new)
            c = live[tape.draw(len(live))]
            if last is not None and c != last:
                switches += 1
            last = c
            try:
                t_before = tuner.hang[1].now if tuner.hang is not None else None
                comp = next(gens[c])
                if tuner.hang is not None and comp.recording_id == tuner.hang[0]:
                    took = tuner.hang[1].now - t_before
                    run.check(took <= 5 + 3.0, 'verdict', 'hung-replay-reported-late',
                              lambda: 'the replay that hangs was given up on after %.1f s of simulated time; the configured timeout is 5 s' % took)
                results[c].append(comp)
                order.append((c, comp.recording_id))
            except StopIteration:
                live.remove(c)
            except Exception as ex:
                run.violate('studio_play_returns', 'generator-raised:%s' % type(ex).__name__, 'result generator of %s raised %r' % (c, ex))
                live.remove(c)
        if switches > 1:
            run.probe('interleaved_consumption')

    if dedicated:
        run.probe('dedicated_process_sample')
        sim = Sim(tape, run, preempt_p=0.0, prim_p=tape.choice([0.0, 0.2]), target_files=[E.TARGET], max_steps=300000, max_time=1e5)
        mp = FakeMP(sim, run, tape)
        if tape.draw(2) == 1:
            pool = [r for c in expected_keys if c not in failing for r in expected_by_cat.get(c, [])]
            if pool:
                # one replay hangs past the timeout while the other categories' runs are under way: only that recording fails
                tuner.hang = (tape.choice(pool), sim)
                run.probe('a_replay_hangs_while_other_categories_run')
        with seams.rebind([(EQ.__name__, 'mp', mp), (EQ.__name__, 'os', mp.os_proxy(_real_os)), (EQ.__name__, 'time', sim.time), (EQ.__name__, 'signal', mp.signal_proxy())]):
            try:
                sim.run_main(drive)
            except SimDeadlock as ex:
                run.violate('studio_play_returns', 'deadlock', str(ex))
                return
            except SimLimit as ex:
                run.violate('studio_play_returns', 'livelock', str(ex))
                return
    else:
        drive()
    if run.violations:
        return
    # ---- oracle
    present_cats = [c for c in expected_keys if expected_by_cat.get(c)]
    run.nontrivial = (len(present_cats) >= 2 and any(a != b and b.startswith(a) for a in present_cats for b in present_cats)) or bool(failing & set(expected_keys)) or \
        run.probes.get('interleaved_consumption', 0) > 0
    for c in expected_keys:
        res = results.get(c)
        if c in failing:
            run.probe('tuner_failed')
            run.check(isinstance(res, tuner.failure_class), 'failing_tuner_yields_its_error', 'tuner-error-not-reported', lambda: 'category %s has a failing tuner but its result is %r' % (c, res))
            played = [j for j in journal if j[0] == 'play' and j[1] == c]
            run.check(not played, 'failing_tuner_yields_its_error', 'played-without-tuning', 'recordings of a category without tuning were played')
            continue
        if isinstance(res, Exception):
            run.violate('other_categories_unaffected', 'category-failed:%s' % type(res).__name__, 'category %s (tuner fine) got %r' % (c, res))
            continue
        got_ids = [comp.recording_id for comp in res]
        exp = expected_by_cat.get(c, [])
        wrong_cat = [r for r in got_ids if cat_of.get(r) != c]
        if wrong_cat:
            run.violate('only_own_category', 'other-category-recording', 'category %s played recordings of %s' % (c, sorted(set(cat_of.get(r, '?') for r in wrong_cat))))
            continue
        if explicit:
            run.check(got_ids == exp, 'each_selected_once', 'explicit-ids-differ', lambda: 'category %s compared %s, selected %s' % (c, got_ids, exp))
        else:
            want = len(exp) if limit is None else min(limit, len(exp))
            ok = len(got_ids) == len(set(got_ids)) == want and set(got_ids) <= set(exp)
            run.check(ok, 'each_selected_once', 'lookup-selection-differs', lambda: 'category %s compared %s, complete recordings of it are %s (limit %s)' % (c, got_ids, exp, limit))
        for comp in res:
            name = E.status_name(comp)
            if tuner.hang is not None and comp.recording_id == tuner.hang[0]:
                run.check(name == 'EqualizerFailure', 'verdict', 'hung-replay-not-reported:%s' % name, lambda: 'the replay of %s hung past the timeout but compared as %s' % (comp.recording_id, name))
                continue
            run.check(name == 'Equal', 'verdict', 'not-equal:%s' % name, lambda: 'recording %s of %s on unchanged code compared as %s (%s)' % (comp.recording_id, c, name, comp.comparator_status.message))
    # routing journal: every play / extract / compare belongs to the recording's own category and tuning
    plays = [j for j in journal if j[0] == 'play']
    ids_played = [j[2] for j in plays]
    dup = [r for r in set(ids_played) if ids_played.count(r) > 1]
    run.check(not dup, 'each_selected_once', 'played-twice', lambda: 'recordings played more than once: %s' % [tag_of[r] for r in dup])
    for j in plays:
        if cat_of.get(j[2]) != j[1]:
            run.violate('own_category_tuning', 'played-by-other-category', 'recording %s of category %s was played by the tuning of %s' % (tag_of.get(j[2]), cat_of.get(j[2]), j[1]))
    tagcat = dict((tag_of[r], cat_of[r]) for r in tag_of)
    for j in journal:
        if j[0] in ('extract', 'compare') and j[2] is not None and tagcat.get(j[2]) != j[1]:
            run.violate('own_category_tuning', '%s-by-other-category' % j[0], '%s of %s (category %s) done by the tuning of %s' % (j[0], j[2], tagcat.get(j[2]), j[1]))
    tokens = {}
    for j in journal:
        tokens.setdefault(j[1], set()).add(j[3])
    for c, ts in tokens.items():
        run.check(len(ts) == 1, 'own_category_tuning', 'several-tunings-for-category', lambda: 'category %s used tunings %s' % (c, sorted(ts)))
    run.check(tuner.created == expected_keys, 'one_tuning_per_category', 'tunings-created', lambda: 'tunings created for %s, categories are %s' % (tuner.created, expected_keys))
    run.ev('studio', store.describe(), [(tag_of[r], cat_of[r]) for r in spy_ids], expected_keys, sorted(failing), order, dedicated)


def all_ids(store, cas):
    if store.kind == 'memory':
        return list(cas.get_all_recording_ids())
    if store.kind == 'file':
        out = []
        for name in sorted(_real_os.listdir(store.dir)):
            out.append(name[:-5])
        # file names flatten the id: recover by reading
        ids = []
        for name in out:
            ids.append(cas.get_recording(name).id)
        return ids
    keys = store.world.snapshot().get('bkt', {})
    marker = '/full/'
    return sorted(k.split(marker, 1)[1] for k in keys if marker in k and k.startswith('tape_recorder_recordings/'))
