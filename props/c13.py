"""C13 Comparison runs always finish and leave no worker behind (DESIGN.md section 4, C13)."""
import sys

from simkit import seams
from simkit.core import Run
from simkit.runner import safe_run_tape
from simkit.tape import Tape

from engines import equalizer as E

PROP = 'C13'

META = {
    'engine': 'equalizer',
    'level': 'exploration',
    'level_text': ('Same simulated runs as C08 (real Equalizer over simulated processes / pipes / kill on a virtual clock), with hangs and worker deaths at '
                   'seeded and at systematically placed positions (first, last, consecutive, on recycle boundaries), all recycle rates 1-5 and timeouts '
                   '1-5 s, and three consumption patterns: consumed fully, generator closed after k items, consumer fails after k items and the generator is '
                   'closed.  Bounded liveness is checked on the virtual clock: every comparison within timeout + 1 s (the polling slice) + epsilon, the '
                   'run terminates, no worker serves more replays than the recycle rate, and no simulated process is alive 0.05 s after the run '
                   'completed or was abandoned. Also: an unkillable worker whose replay returns later must leave once the run is over; Event sleepers acknowledge set() as in multiprocessing (a killed sleeper blocks it). SIGINT delivered to the whole process group at a tape-chosen moment.'),
    'level_note': 'Trusted: fake multiprocessing and virtual clock; the liveness bound timeout + 1 s + jitter + queue delay + slow start is the documented polling behaviour. Abandonment means the generator is closed (garbage collection is disabled during a run).',
    'rule': ('evaluation = one comparison run in dedicated-process mode; non-trivial = at least one hang or worker death occurred, or the run was abandoned '
             'early; distinct = distinct event-log digest.'),
    'assumptions': ['recycle rate >= 1', 'abandoning a run means closing the generator', 'os.kill succeeds'],
    'components_real': ['Equalizer._play_and_compare_recording_within_worker, _handle_compare_execution_timeout, _create_or_recycle_player_process_if_needed, run_comparison finally-block, worker loop'],
    'components_stub': ['multiprocessing, os.kill, time() (simulated)', 'player behaviours (scripted)'],
    'budgets': {'quick': {'seconds': 40}, 'thorough': {'seconds': 600}},
    'required_probes': {'thorough': ['hang_first', 'hang_last', 'consecutive_faults', 'fault_on_recycle_boundary', 'closed_early', 'consumer_raised', 'worker_killed_on_timeout']},
}


def run_tape(tape):
    with seams.deterministic(tape):
        return _run(tape)


def _run(tape):
    run = Run(PROP)
    placed = tape.draw(3)                 # 0 random behaviours, 1/2 systematic placement of one / two faults
    pos = tape.draw(64)
    kind = tape.draw(8)
    sc = E.Scenario(tape, force_dedicated=True)
    sc.allow_kill_failure = True
    # Ctrl-C in the terminal at a tape-chosen moment: SIGINT reaches the parent and every worker (the run is abandoned)
    sc.sigint_at = tape.choice([None, None, None, 0.3, 1.7, 4.2]) if not placed or tape.draw(3) == 2 else None
    if sc.sigint_at is not None:
        run.probe('sigint_to_the_process_group')
    worker_faults = ['worker_hang', 'worker_exit', 'worker_abort', 'worker_late_answer', 'worker_late_death']
    if placed:
        sc.behaviours = ['equal'] * sc.n
        p = pos % sc.n
        sc.behaviours[p] = worker_faults[kind % 5]
        if placed == 2:
            sc.behaviours[(p + 1) % sc.n] = worker_faults[(kind // 5 + kind) % 5]
            run.probe('consecutive_faults')
        sc.idle_kill = False
    run.say(sc.describe())
    faults_at = [i for i, b in enumerate(sc.behaviours) if b in worker_faults]
    if 0 in faults_at:
        run.probe('hang_first')
    if sc.n - 1 in faults_at:
        run.probe('hang_last')
    if any(i % sc.recycle in (0, sc.recycle - 1) for i in faults_at):
        run.probe('fault_on_recycle_boundary')
    out = E.run_scenario(run, tape, sc)
    mp, world = out.mp, out.world
    if sc.consume == 'close_early':
        run.probe('closed_early')
    if sc.consume == 'consumer_raises':
        run.probe('consumer_raised')
    if any(p.killed_by == 'os.kill' for p in mp.processes):
        run.probe('worker_killed_on_timeout')
    run.nontrivial = bool(faults_at) or sc.consume != 'full' or sc.idle_kill
    run.ev('run', sc.describe(), [round(d, 4) for d in out.durations], [(p.pid, p.killed_by, p.exitcode) for p in mp.processes],
           sorted(world.handled.items()), out.alive_after, out.alive_after_grace, round(out.sim.now, 4))
    # ---- termination
    if out.deadlock:
        run.violate('run_terminates', 'deadlock', 'the comparison run blocked for ever: %s' % out.deadlock)
        return run
    if out.limit:
        run.violate('run_terminates', 'livelock', 'the comparison run did not finish within the step / time cap: %s' % out.limit)
        return run
    # ---- bounded liveness per comparison
    slack = 1.0 + 0.05 + sc.queue_delay * 2 + sc.slow_start + (0.2 if sc.jitter else 0.0) + 0.35 + sc.exit_delay
    bound = sc.timeout + slack
    if 'leaves_thread' in sc.behaviours:
        # retiring a worker that cannot exit takes up to the timeout (bounded join, then kill) before the next replay starts
        bound += sc.timeout
        run.probe('retiring_a_worker_that_cannot_exit')
    for i, d in enumerate(out.durations):
        if d > bound:
            tag = world.tag_of[out.ids[i]]
            run.violate('failure_within_timeout', 'comparison-took-too-long:%s' % world.effective(tag),
                        'comparison #%d (%s) took %.3f s of simulated time, bound is timeout %.0f s + %.2f s' % (i, world.effective(tag), d, sc.timeout, slack))
            break
    # ---- recycle bound
    for pid, n in sorted(world.handled.items()):
        if pid and n > sc.recycle:
            run.violate('recycle_rate_respected', 'served-more-than-recycle-rate', 'worker %d served %d replays, recycle rate is %d' % (pid, n, sc.recycle))
            break
    # ---- hung workers were killed, nobody is left behind
    hung = [p for p in mp.processes if p.alive_quiet()]
    unkillable = [p.pid for p in mp.processes if p.kill_failed]
    if unkillable:
        run.probe('kill_failed_worker_lives_on')
    # (Ctrl-C may cut the parent's own clean-up short - the bounded join of a worker that cannot exit is interruptible like any
    # wait - and such a worker does not die of its SIGINT either: not claimed)
    stuck = set(p.pid for p in mp.processes if p.exit_hangs) if getattr(out, 'interrupted', False) else set()
    left = [pid for pid in (out.alive_after_grace or []) if pid not in unkillable and pid not in stuck]
    # an unkillable worker is excused only while its replay lasts: one whose replay returns (a late answer) must be gone
    # some time after the run ended; one that hangs for ever cannot be
    last_played = {}
    for pid, tag in world.played:
        last_played[pid] = world.effective(tag)
    cannot_exit = set(p.pid for p in mp.processes if p.exit_hangs)        # (neither killable nor able to exit: nothing the parent can do)
    lingering = [pid for pid in (getattr(out, 'alive_eventually', None) or []) if pid in unkillable and last_played.get(pid) != 'worker_hang' and pid not in cannot_exit]
    if lingering:
        run.violate('no_worker_left_behind', 'unkillable-worker-never-leaves:%s' % sc.consume,
                    'worker(s) %s could not be killed after the timeout; their replay returned long ago, the run %s, and %.0f s later they are still alive' % (
                        lingering, 'completed' if sc.consume == 'full' else 'was abandoned (%s)' % sc.consume, sc.timeout + 3.0))
    elif unkillable and any(last_played.get(pid) != 'worker_hang' for pid in unkillable):
        run.probe('unkillable_worker_left_after_its_replay_returned')
    if left:
        reason = 'hung' if any(b in ('worker_hang',) for b in sc.behaviours) else 'idle'
        run.violate('no_worker_left_behind', 'worker-alive-after-run:%s:%s' % (sc.consume, reason),
                    'simulated worker process(es) %s still alive %.2f s after the run %s' % (left, 0.07 + sc.slow_start,
                                                                                      'completed' if sc.consume == 'full' else 'was abandoned (%s)' % sc.consume))
    return run


def run_index(i, seed, tier, emit):
    mod = sys.modules[__name__]
    # seeded random scenarios (all behaviours, both modes, consumption patterns, external kill)
    for k in range(25):
        t = Tape(seed * 31 + k, prefix=[0])
        emit(safe_run_tape(mod, t), t)
    # systematic placement on this seed's configuration: every position x every worker fault, then pairs
    for pos in range(13):
        for kind in range(5):
            t = Tape(seed, prefix=[1, pos, kind])
            emit(safe_run_tape(mod, t), t)
    for pos in range(0, 13, 3):
        for kind in range(10):
            t = Tape(seed, prefix=[2, pos, kind])
            emit(safe_run_tape(mod, t), t)
