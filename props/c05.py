"""C05 A recording is persisted whole or not at all, and finalised exactly once (DESIGN.md section 4, C05)."""
import sys

from simkit import seams
from simkit import values as V
from simkit.core import Run
from simkit.runner import safe_run_tape
from simkit.tape import Tape

from playback.exceptions import RecordingKeyError
from playback.tape_recorder import TapeRecorder

from engines import recplay as R
from engines import cassettes as C

PROP = 'C05'
SAMPLING = [('rate1', 1.0, None), ('rate0', 0.0, 0.5), ('frac_in', 0.5, 0.1), ('frac_out', 0.5, 0.9)]
KINDS_IN = ['key_unbuildable', 'handler_raises', 'discard_in_body', 'interrupt_in_body', 'discard_before', 'raise_before',
            'interrupt_before', 'force_before', 'fallback_raises', 'resolver_raises', 'disable_in_body', 'disable_in_body_handler_raises', 'discard_in_body_handler_raises']
KINDS_OUT = ['handler_raises', 'discard_in_body', 'interrupt_in_body', 'discard_before', 'raise_before', 'interrupt_before',
             'force_before', 'disable_in_body', 'disable_in_body_handler_raises', 'disable_in_handler', 'discard_in_body_handler_raises']

META = {
    'engine': 'recplay',
    'level': 'fault_enumeration',
    'level_text': ('For each generated single-threaded program: every single placement of every capture fault, explicit discard, '
                   'ordinary exception and interrupt-style termination at every interception step (also inside intercepted '
                   'bodies), crossed with four sampling outcomes (scripted RNG) and storage failing on save; a spy cassette '
                   'counts finalisations and everything found in the cassette afterwards is replayed against a tripwire '
                   'environment.  Enumeration of fault placements over sampled programs, not a proof. Also: two recorders in one process, the operation of one running inside an intercepted input / output body or the operation of the other (each recording finalised once in its own cassette, every saved one replays); recording switched off mid-operation (as a step and from inside an intercepted body, alone and together with a failing data handler), and input bodies that modify their arguments.'),
    'level_note': 'Trusted: spy cassette journal, fault injection in the generated service, the small finalisation model in this file. Single-threaded; one operation at a time.',
    'rule': ('evaluation = one (program, fault placement, sampling outcome) executed with recording enabled, followed by a replay '
             'of every complete recording left in the cassette; non-trivial = a fault / termination fired or sampling was not '
             'the trivial rate 1; distinct = distinct event-log digest.'),
    'assumptions': ['single-threaded operations (stragglers are C04)', 'interrupt-style exceptions are not swallowed by service code'],
    'components_real': ['TapeRecorder', 'MemoryRecording', 'all three cassettes (store chosen per program)'],
    'components_stub': ['spy around the cassette (delegating)', 'scripted sampling RNG', 'S3 bucket', 'service and environment'],
    'budgets': {'quick': {'seconds': 30}, 'thorough': {'seconds': 480}},
    'required_probes': {'thorough': ['saved_after_fault_free_prefix', 'aborted_by_discard', 'aborted_by_sampling', 'incomplete_saved',
                                     'save_raised', 'replayed_saved_recording', 'interrupt_inside_body']},
}


def run_tape(tape):
    with seams.deterministic(tape) as clock:
        return _run(tape, clock)


def two_recorders(tape, clock):
    """Two recorders in one process, each with its own cassette (two components of one service): an operation recorded by
    one of them runs inside an intercepted input / output body or inside the operation of the other, or on its own.  Every
    recording is finalised exactly once in its own cassette and every complete saved recording replays."""
    from playback.tape_cassettes.in_memory.in_memory_tape_cassette import InMemoryTapeCassette
    run = Run(PROP)
    run.probe('two_recorders_in_one_process')
    where = ['input_body', 'output_body', 'operation_body', 'direct'][tape.draw(4)]
    x_on = tape.draw(3) != 2
    curs = ['c%d' % tape.draw(3) * (1 + tape.draw(2)) for _ in range(1 + tape.draw(3))]
    x_first = tape.draw(2) == 1
    store = C.gen_store(tape, clock)
    run.say('two recorders: inner operation runs in %s of the outer one; outer recording %s; calls %s; cassette of the inner %s'
            % (where, 'on' if x_on else 'off', curs, store.describe()))
    run.ev('case2', where, x_on, curs, x_first, store.describe())
    try:
        spy_x, spy_y = R.SpyCassette(InMemoryTapeCassette(), run), R.SpyCassette(store.open(), run)
        rec_x, rec_y = (TapeRecorder(spy_x), TapeRecorder(spy_y)) if x_first else tuple(reversed((TapeRecorder(spy_y), TapeRecorder(spy_x))))
        rec_y.enable_recording()
        if x_on:
            rec_x.enable_recording()
        journal, world = [], {'k': 1}

        class Pricing(object):
            @rec_y.operation()
            def execute(self, cur):
                r = self.load_rate(cur)
                return ['priced', cur, r, self.publish(cur, r * 2)]

            @rec_y.intercept_input('load_rate')
            def load_rate(self, cur):
                journal.append(('load_rate', cur))
                return world['k'] * len(cur) + 0.5

            @rec_y.intercept_output('publish')
            def publish(self, cur, v):
                journal.append(('publish', cur, v))
                return 'ack-%s-%s' % (cur, world['k'])

        class Gateway(object):
            @rec_x.operation()
            def execute(self, cs):
                if where == 'input_body':
                    return [self.fetch_quote(c) for c in cs]
                if where == 'output_body':
                    return [self.send(c) for c in cs]
                return [Pricing().execute(c) for c in cs]

            @rec_x.intercept_input('fetch_quote')
            def fetch_quote(self, c):
                return Pricing().execute(c)

            @rec_x.intercept_output('send')
            def send(self, c):
                return Pricing().execute(c)
        R.D.register('Pricing', Pricing)
        R.D.register('Gateway', Gateway)
        live = [Pricing().execute(c) for c in curs] if where == 'direct' else Gateway().execute(curs)
        run.ev('live', live, len(journal))
        run.check(len(journal) == 2 * len(curs), 'finalised_exactly_once', 'two-recorders:bodies-not-run-once',
                  lambda: 'bodies executed while recording: %s' % journal)
        for name, spy, n in (('inner', spy_y, len(curs)), ('outer', spy_x, 1 if (x_on and where != 'direct') else 0)):
            calls = spy.mutations()
            creates = [c[1] for c in calls if c[0] == 'create']
            run.check(len(creates) == n, 'finalised_exactly_once', 'two-recorders:create-count:' + name,
                      lambda: '%s recorder: expected %d recordings, cassette saw %s' % (name, n, calls))
            for rid in creates:
                fin = [c[0] for c in calls if c[1] == rid and c[0] in ('save', 'abort')]
                run.check(fin == ['save'], 'finalised_exactly_once', 'two-recorders:finalised-%s:%s' % ('+'.join(fin) or 'never', name),
                          lambda: '%s recorder: recording %s finalised %s (calls %s)' % (name, rid, fin or 'never', calls))
        world['k'] = 7        # the world moves on: a replay that runs a body is seen in the journal and in the result
        plans = [(rec_y, spy_y, [(lambda c: (lambda r_: Pricing().execute(c)))(c) for c in curs], 'inner')]
        if where in ('input_body', 'output_body'):
            plans.append((rec_x, spy_x, [lambda r_: Gateway().execute(curs)], 'outer'))
        for recorder, spy, funcs, name in plans:
            rids = [c[1] for c in spy.mutations() if c[0] == 'save']
            for rid, fn in zip(rids, funcs):
                if spy.inner.get_recording(rid).get_metadata().get(TapeRecorder.INCOMPLETE_RECORDING):
                    run.violate('incomplete_only_when_interrupted', 'two-recorders:incomplete-flag-on-finished-run:' + name,
                                '%s recording %s flagged incomplete although its operation returned' % (name, rid))
                    continue
                del journal[:]
                try:
                    pb = recorder.play(rid, fn)
                except RecordingKeyError as ex:
                    run.violate('saved_recording_replays', 'two-recorders:replay-raised:RecordingKeyError:' + name,
                                'saved complete %s recording %s failed to replay on unchanged code: %r' % (name, rid, ex))
                    continue
                run.probe('replayed_saved_recording')
                run.check(not journal, 'saved_recording_replays', 'two-recorders:body-executed-in-replay:' + name,
                          lambda: 'replay of the saved %s recording executed bodies %s' % (name, journal[:3]))
                a = sorted((o.key, V.srepr(o.value)) for o in pb.recorded_outputs)
                b = sorted((o.key, V.srepr(o.value)) for o in pb.playback_outputs)
                run.check(a == b, 'saved_recording_replays', 'two-recorders:replay-result-differs:' + name,
                          lambda: 'recorded %s, replayed %s' % (a, b))
        run.nontrivial = True
    finally:
        store.close()
    return run


def _run(tape, clock):
    mode = tape.draw(4)
    if mode == 3:
        return two_recorders(tape, clock)
    run = Run(PROP)
    pos = tape.draw(4096)
    kind_raw = tape.draw(64)
    samp = SAMPLING[tape.draw(len(SAMPLING))]
    pos2, kind2 = tape.draw(4096), tape.draw(64)
    save_raises = tape.draw(8) == 7
    ignore_forced = tape.draw(4) == 3
    V.set_flavour(tape)
    spec = R.gen_service(tape, run, max_steps=10, threads=False, arg_mutating_inputs=True)
    R.fill_outcomes(tape, run, spec)
    spec.op.params = {'sampling_rate': samp[1], 'ignore_enforced_sampling': ignore_forced}
    if tape.draw(5) == 4:
        spec.op.extractor = 'discards'      # the metadata extractor (called during finalisation) asks for a discard
    io = [s for s in R.flat_steps(spec.body) if s[0] in ('in', 'out')]
    run.config = {'io_steps': [s[0] for s in io]}
    placed = []
    if mode >= 1 and io:
        st = io[pos % len(io)]
        kinds = KINDS_IN if st[0] == 'in' else KINDS_OUT
        placed.append(R.place_fault(spec, st, kinds[kind_raw % len(kinds)], run))
    if mode >= 2 and io:
        st = io[pos2 % len(io)]
        kinds = KINDS_IN if st[0] == 'in' else KINDS_OUT
        placed.append(R.place_fault(spec, st, kinds[kind2 % len(kinds)], run))
    if tape.draw(3) == 2:
        # interceptions declared with missing-key options (they soften a replay, they must not soften what is saved)
        run.probe('interceptions_with_missing_key_options')
        for i_ in spec.inputs:
            i_.run_when_missing = tape.draw(3) == 2
            if tape.draw(3) == 2:
                i_.value_when_missing = ('value', ('substitute', i_.alias))
        for o_ in spec.outputs:
            o_.fail_on_missing = tape.draw(2) == 0
            o_.default_result = ('default', o_.alias)
    worker_after_switch = False
    if tape.draw(8) == 7:
        # recording is switched off mid-operation (a kill switch): interceptions after it cannot be captured
        pos_d = tape.draw(len(spec.body) + 1)
        spec.body.insert(pos_d, ['disable'])
        placed.append('disable')
        tail = spec.body[pos_d + 1:]
        if tape.draw(3) == 2 and tail and all(st_[0] in ('in', 'out') and st_[4] is None for st_ in tail):
            # ... and what follows the switch runs on a (joined) worker thread of the operation
            spec.body = spec.body[:pos_d + 1] + [['spawn', [spec.body[pos_d + 1:]], False]]
            worker_after_switch = True
            run.probe('interception_on_a_worker_thread_after_the_switch')
    store = C.gen_store(tape, clock)
    for line in spec.describe():
        run.say(line)
    run.say('placed=%s sampling=%s save_raises=%s ignore_forced=%s cassette=%s' % (placed, samp[0], save_raises, ignore_forced, store.describe()))
    run.ev('case', spec.describe(), placed, samp[0], save_raises, ignore_forced, store.describe())
    try:
        spy = R.SpyCassette(store.open(), run)
        spy.save_raises = save_raises
        recorder = TapeRecorder(spy)
        rng = R.ScriptedRandom([samp[2]] if samp[2] is not None else [], default=0.5)
        recorder._random = rng
        if worker_after_switch:
            from props.c09 import real_thread_factory
            rec = R.record_once(spec, run, spy, recorder=recorder, thread_factory=real_thread_factory)
        else:
            rec = R.record_once(spec, run, spy, recorder=recorder)
        calls = spy.mutations()
        run.say('operation: %r; cassette calls: %s' % (rec.outcome, calls))
        run.ev('calls', rec.outcome.canon(), calls)
        # ---- exactly once
        creates = [c[1] for c in calls if c[0] == 'create']
        run.check(len(creates) == 1, 'finalised_exactly_once', 'create-count', lambda: 'expected one create, saw %s' % calls)
        for rid in creates:
            fin = [c[0] for c in calls if c[1] == rid and c[0] in ('save', 'abort')]
            if len(fin) != 1:
                run.violate('finalised_exactly_once', 'finalised-%s' % ('never' if not fin else '+'.join(fin)),
                            'recording %s finalised %s (calls %s)' % (rid, fin or 'never', calls))
        # ---- saved only if allowed by the model
        f = run.faults
        discarded = any(f.get(k) for k in ('key_unbuildable', 'handler_raises', 'discard', 'discard_in_body', 'fallback_raises', 'resolver_raises'))
        if rec.svc.disabled_at is not None and rec.svc.calls_begun > rec.svc.disabled_at:
            # an interception took place while recording was switched off: it was not captured, the recording is not whole
            discarded = True
            run.probe('interception_after_recording_was_switched_off')
        elif f.get('disable') or f.get('disable_in_body'):
            run.probe('recording_switched_off_without_later_interception')
        if f.get('disable_in_handler'):
            # switched off between the capture of the output's arguments and of its result: that call is not whole
            discarded = True
            run.probe('switched_off_while_an_output_was_being_captured')
        if f.get('discard_in_extractor'):
            run.probe('discard_requested_during_finalisation')
        forced = (f.get('force_sample') or f.get('force_in_body')) and not ignore_forced
        sampled = bool(forced) or samp[1] >= 1 or (samp[2] is not None and samp[2] <= samp[1])
        expect = 'abort' if discarded else ('save' if sampled else 'abort')
        got = [c[0] for c in calls if c[0] in ('save', 'abort')]
        if len(got) == 1 and got[0] != expect and not (forced and discarded):
            run.violate('saved_iff_whole_and_sampled', 'expected-%s-got-%s%s' % (expect, got[0], ':after-capture-failure' if discarded else ''),
                        'model expects %s (discarded=%s forced=%s sampling=%s) but cassette saw %s' % (expect, discarded, bool(forced), samp[0], calls))
        if discarded:
            run.probe('aborted_by_discard')
        elif not sampled:
            run.probe('aborted_by_sampling')
        if save_raises and 'save' in got:
            run.probe('save_raised')
        if f.get('interrupt_in_body'):
            run.probe('interrupt_inside_body')
        # ---- everything present and not flagged incomplete replays without a missing-key error
        if not R.recording_in_faithful_domain(rec):
            run.probe('recording_outside_faithful_domain')
            return run
        cas2 = store.open(read_only=True)
        present = []
        for rid in creates:
            try:
                r = cas2.get_recording(rid)
            except Exception:
                r = None
            if r is not None:
                present.append((rid, r))
        if present and 'save' not in got:
            run.violate('saved_iff_whole_and_sampled', 'present-without-save', 'recording present in cassette although save was never called')
        for rid, r in present:
            meta = r.get_metadata()
            if placed and rec.svc.checks:
                run.probe('saved_after_fault_free_prefix')
            if meta.get(TapeRecorder.INCOMPLETE_RECORDING):
                run.probe('incomplete_saved')
                run.check(rec.outcome.kind == 'interrupt', 'incomplete_only_when_interrupted', 'incomplete-flag-on-finished-run',
                          'recording flagged incomplete although the operation ended by %s' % rec.outcome.kind)
                continue
            rep = R.replay_once(spec, run, cas2, rid)
            run.probe('replayed_saved_recording')
            if rep.outcome.kind != 'return':
                ex = rep.outcome.exc
                run.violate('saved_recording_replays', 'replay-raised:%s' % type(ex).__name__,
                            'saved complete recording %s failed to replay on unchanged code: %r' % (rid, ex))
            else:
                run.check(not [j for j in rep.env.journal], 'saved_recording_replays', 'body-executed-in-replay',
                          lambda: 'replay of saved recording executed bodies %s' % rep.env.journal[:3])
                a, b = rec.outcome, rep.op_outcome
                run.check(b is not None and a.canon() == b.canon(), 'saved_recording_replays', 'replay-result-differs',
                          lambda: 'recorded %r, replayed %r' % (a, b))
        run.nontrivial = bool(run.faults) or samp[0] != 'rate1'
    finally:
        store.close()
    return run


def run_index(i, seed, tier, emit):
    mod = sys.modules[__name__]
    t = Tape(seed, prefix=[0, 0, 0, 0])
    dry = safe_run_tape(mod, t)
    emit(dry, t)
    steps = dry.config.get('io_steps', [])
    for s in range(1, len(SAMPLING)):
        t = Tape(seed, prefix=[0, 0, 0, s])
        emit(safe_run_tape(mod, t), t)
    for pos, kind in enumerate(steps):
        for k in range(len(KINDS_IN if kind == 'in' else KINDS_OUT)):
            for s in range(len(SAMPLING)):
                t = Tape(seed, prefix=[1, pos, k, s])
                emit(safe_run_tape(mod, t), t)
    for n in range(4 if tier == 'quick' else 16):
        t = Tape(seed, prefix=[3, n % 4, (n // 4) % 3])
        emit(safe_run_tape(mod, t), t)
    for n in range(8 if tier == 'quick' else 30):
        t = Tape(seed, prefix=[2, (n * 7919 + seed) % 4096, (n * 31 + seed // 7) % 64, n % 4,
                               (n * 104729 + seed // 3) % 4096, (n * 17 + seed // 11) % 64])
        emit(safe_run_tape(mod, t), t)
