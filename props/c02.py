"""C02 Replay answers every interception from the recording or an explicit policy (DESIGN.md section 4, C02)."""
import copy
import sys

from simkit import seams
from simkit import values as V
from simkit.core import Run
from simkit.runner import safe_run_tape
from simkit.tape import Tape

from playback.exceptions import RecordingKeyError, NoSuchRecording
from playback.tape_recorder import TapeRecorder

from engines import recplay as R
from engines import cassettes as C

PROP = 'C02'

FALLBACKS = ['none', 'list', 'fn']
RUN_ORIG = [False, True]
SUBSTITUTES = [('none',), ('value', 5), ('value', 0), ('value', ''), ('value', []), ('value', {}), ('value', False), ('callable', 'from-callable'),
               ('callable', None), ('callable', 0)]
FAIL_ON = [True, False]
DEFAULTS = [None, 'dflt']
ENABLED = [False, True]
DIMS = [FALLBACKS, RUN_ORIG, SUBSTITUTES, FAIL_ON, DEFAULTS, ENABLED]
NROWS = 1
for d in DIMS:
    NROWS *= len(d)
CHUNK = 48
NCHUNKS = (NROWS + CHUNK - 1) // CHUNK

META = {
    'engine': 'recplay',
    'level': 'exploration',
    'level_text': ('The missing-key option space (fallback none/list/callable x run-original x 10 substitutes incl. the falsy ones 0, "", [], {}, '
                   'False and a callable x fail-on-missing-result x default result x recording enabled/disabled = 480 rows) is enumerated '
                   'completely against a fixed program pair on all three cassettes; beyond it seeded random pairs (P, P\') with present and '
                   'absent requests, renamed aliases with fallback lists, 1-3 replays.  A reference model of the documented policy predicts '
                   'every call; wrapped bodies are journaled (tripwire); a spy plus a byte snapshot prove the cassette is untouched. Also: the library\'s DEBUG logging switched on (logging is not behaviour), and a run-original body that itself calls recorded inputs and an output. An input data handler that fails to restore a present entry in replay; the same call on the other instance of a resolver input. A replay started by a recorded operation while its own recording is in progress on the same recorder.'),
    'level_note': 'Trusted: the reference policy model in this file (about 60 lines), the environment journal, byte snapshots of the stores. Programs without nested interceptions (run-original of an outer body re-enters interception).',
    'rule': ('evaluation = one (P, P\', options) pair replayed 1-3 times; non-trivial = P\' made at least one request that is absent from the '
             'recording or was answered through a fallback alias; distinct = distinct event-log digest. exhaustive=true refers to the 480-row option table.'),
    'exhaustive_part': 'option table of 480 rows on a fixed program pair (all combinations listed in level_text), each on a tape-chosen cassette',
    'table_chunks': {'quick': NCHUNKS, 'thorough': NCHUNKS},
    'assumptions': ['value_when_missing=None means "no substitute configured" (the documented default)', 'no nested interceptions in P\'',
                    'service code does not catch the framework\'s own exceptions'],
    'components_real': ['TapeRecorder.play, input/output decorators in playback mode', 'MemoryRecording', 'all three cassettes'],
    'components_stub': ['S3 bucket', 'service and environment', 'spy around the cassette'],
    'budgets': {'quick': {'seconds': 30}, 'thorough': {'seconds': 480}},
    'required_probes': {'quick': ['table_row'], 'thorough': ['table_row', 'run_original_body_calls_intercepted_functions', 'library_logging_at_debug_level', 'answered_by_fallback', 'run_original', 'substitute_falsy', 'substitute_callable',
                                                              'missing_key_error', 'default_result', 'missing_result_error', 'unknown_id', 'three_replays']},
}


def run_tape(tape):
    with seams.deterministic(tape) as clock:
        mode = tape.draw(4)
        if mode == 1:
            return table_row(tape, clock)
        debug = tape.draw(4) == 3
        with seams.debug_logging(debug):
            if mode == 3:
                sub = tape.draw(3)
                if sub == 1:
                    return nested_in_run_original(tape, clock)
                if sub == 2:
                    return replay_during_recording(tape, clock)
            return random_pair(tape, clock, debug)


# ------------------------------------------------------------------------------------------ reference model
class Opt(object):
    """Options of one input / output in P'."""

    def __init__(self):
        self.alias = None            # main alias text given to the decorator (None: unchanged)
        self.fallback_kind = 'none'
        self.fallback_names = []      # literal alias texts, or ('old',) marker resolved per call
        self.run_original = False
        self.substitute = ('none',)
        self.fail_on = True
        self.default = None


def main_alias(ispec, opt, dep_name):
    if opt.alias is None:
        return R.resolved_alias(ispec, dep_name)
    return opt.alias.replace('{name}', dep_name)


def fallback_list(ispec, opt, dep_name):
    out = []
    for n in opt.fallback_names:
        out.append(R.resolved_alias(ispec, dep_name) if n == '<old>' else n)
    return out


def predict(spec2, opts, rec_in, rec_out):
    """Documented replay semantics: returns (observations, end, body_runs, counters)."""
    obs, body_runs, counts = [], [], {}
    info = {'absent': 0, 'fallback': 0, 'why': []}
    why = info['why']
    for st in spec2.body:
        if st[0] == 'in':
            ispec = spec2.inputs[st[1]]
            opt = opts['in'][ispec.alias]
            args, kwargs = ispec.pool[st[2] % len(ispec.pool)]
            dep = 'd%d' % (st[3] % 2)
            cap = R.model_captured(ispec, args, kwargs)
            names = [main_alias(ispec, opt, dep)] + fallback_list(ispec, opt, dep)
            hit = next((n for n in names if (n, cap) in rec_in), None)
            if hit is not None:
                if hit != names[0]:
                    info['fallback'] += 1
                why.append('recorded' if hit == names[0] else 'fallback')
                out = rec_in[(hit, cap)]
                if st[4] == 'restore_raises' and ispec.handler and out[0] != 'raise':
                    # the entry is there but the data handler fails to restore it: that failure reaches the caller, it is not
                    # a missing entry (no policy applies)
                    why[-1] = 'restore-raises'
                    obs.append(['in', ispec.alias, 'raised', 'RuntimeError'])
                    continue
            else:
                info['absent'] += 1
                if opt.run_original:
                    body_runs.append(ispec.alias)
                    why.append('run-original')
                    out = ispec.outcomes[(R.resolved_alias(ispec, dep), cap)]
                elif opt.substitute[0] != 'none':
                    why.append('substitute-callable' if opt.substitute[0] == 'callable' else ('substitute-truthy' if opt.substitute[1] else 'substitute-falsy'))
                    out = ('value', opt.substitute[1])
                else:
                    why.append('missing-input')
                    return obs, 'RecordingKeyError', body_runs, info
            if out[0] == 'raise':
                obs.append(['in', ispec.alias, 'raised', out[1].__name__])
            else:
                obs.append(['in', ispec.alias, 'value', out[1]])
        elif st[0] == 'out':
            ospec = spec2.outputs[st[1]]
            opt = opts['out'][ospec.alias]
            counts[ospec.alias] = counts.get(ospec.alias, 0) + 1
            key = (ospec.alias, counts[ospec.alias])
            if key in rec_out:
                why.append('recorded-result')
                out = rec_out[key]
            else:
                info['absent'] += 1
                if opt.fail_on:
                    why.append('missing-result')
                    return obs, 'RecordingKeyError', body_runs, info
                why.append('default-result')
                out = ('value', opt.default)
            if out[0] == 'raise':
                obs.append(['out', ospec.alias, 'raised', out[1].__name__])
            else:
                obs.append(['out', ospec.alias, 'value', out[1]])
        elif st[0] == 'raise':
            why.append('end')
            return obs, st[1].__name__, body_runs, info
    why.append('end')
    return obs, 'return', body_runs, info


def recorded_tables(spec, rec):
    """What P's live run put into the recording, from the harness' own journal of the run."""
    rec_in, rec_out, counts = {}, {}, {}
    for st in spec.body:
        if st[0] == 'in':
            ispec = spec.inputs[st[1]]
            args, kwargs = ispec.pool[st[2] % len(ispec.pool)]
            dep = 'd%d' % (st[3] % 2)
            cap = R.model_captured(ispec, args, kwargs)
            rec_in[(R.resolved_alias(ispec, dep), cap)] = ispec.outcomes[(R.resolved_alias(ispec, dep), cap)]
        elif st[0] == 'out':
            ospec = spec.outputs[st[1]]
            counts[ospec.alias] = counts.get(ospec.alias, 0) + 1
            rec_out[(ospec.alias, counts[ospec.alias])] = st[3]
        elif st[0] == 'raise':
            break
    return rec_in, rec_out


def overrides_of(spec2, opts):
    ov = {}
    for ispec in spec2.inputs:
        o = opts['in'][ispec.alias]
        d = {'run_when_missing': o.run_original, 'value_when_missing': o.substitute}
        if o.alias is not None:
            d['alias'] = o.alias
        if o.fallback_kind == 'none':
            d['fallback'] = None
        elif o.fallback_kind == 'list':
            d['fallback'] = [ispec.alias if n == '<old>' else n for n in o.fallback_names]
        else:
            names = list(o.fallback_names)
            base = ispec.alias
            res = ispec.resolver
            kind = ispec.kind

            def fn(*a, names=names, base=base, res=res, kind=kind, **k):
                dep_name = a[0].name if (kind != 'static' and a) else 'd0'
                return [((base + '.' + dep_name) if res else base) if n == '<old>' else n for n in names]
            d['fallback'] = fn
        ov[ispec.alias] = d
    for ospec in spec2.outputs:
        o = opts['out'][ospec.alias]
        ov[ospec.alias] = {'fail_on_missing': o.fail_on, 'default_result': o.default}
    return ov


# ------------------------------------------------------------------------------------------ execution + oracle
def execute(run, tape, clock, spec, spec2, opts, enabled, nreplays, store, label):
    for line in spec.describe():
        run.say(line)
    run.say("P' body %s" % R.describe_steps(spec2.body))
    for a, o in sorted(opts['in'].items()):
        run.say("P' %s: alias=%s fallback=%s%s run_original=%s substitute=%s" % (a, o.alias, o.fallback_kind, o.fallback_names, o.run_original, V.short(o.substitute)))
    for a, o in sorted(opts['out'].items()):
        run.say("P' %s: fail_on_missing=%s default=%r" % (a, o.fail_on, o.default))
    run.say('recording enabled during play=%s replays=%d cassette=%s' % (enabled, nreplays, store.describe()))
    rec = R.record_once(spec, run, store.open(), rseed=1)
    if not rec.saved:
        run.violate('recording_saved', 'not-saved', 'fault-free recording was not saved')
        return
    if not R.recording_in_faithful_domain(rec):
        run.probe('recording_outside_faithful_domain')
        return
    rec_in, rec_out = recorded_tables(spec, rec)
    exp_obs, exp_end, exp_bodies, info = predict(spec2, opts, rec_in, rec_out)
    run.ev('case', label, spec.describe(), R.describe_steps(spec2.body), enabled, nreplays, store.describe(), exp_end)
    if info['absent'] or info['fallback']:
        run.nontrivial = True
    if info['fallback']:
        run.probe('answered_by_fallback')
    cas = store.open()
    spy = R.SpyCassette(cas, run)
    # histories: all replays may share one recorder, and an unrelated replay of another recording may have failed on it
    shared = TapeRecorder(spy) if tape.draw(2) == 1 else None
    if shared is not None:
        run.probe('shared_recorder')
        if tape.draw(2) == 1:
            other = fixed_pair()
            other.op.name = 'OpB'
            other_rec = R.record_once(other, run, store.open(), rseed=2)
            if other_rec.saved:
                R.failing_replay(other, run, tape, spy, other_rec.rec_id, shared)
                spy.calls[:] = []
    before = store.snapshot()
    summaries = []
    why = info['why']
    for n in range(nreplays):
        nviol = len(run.violations)
        rep = R.replay_once(spec2, run, spy, rec.rec_id, overrides=overrides_of(spec2, opts), enable_recording=enabled, recorder=shared)
        done = len(rep.svc.partial_obs) if rep.svc.partial_obs is not None else 0
        at = why[done] if done < len(why) else 'end'
        # outcome
        if exp_end == 'RecordingKeyError':
            run.probe('missing_key_error')
            ok = rep.outcome.kind == 'raise' and isinstance(rep.outcome.exc, RecordingKeyError)
            if ok and done != len(exp_obs):
                run.violate('policy_outcome', 'play-raised:RecordingKeyError@%s' % at,
                            'call #%d should be answered by %s but play() raised %r there (the model expects the missing-key error only at call #%d)' % (
                                done, at, rep.outcome.exc, len(exp_obs)))
            elif ok:
                got_obs = rep.svc.partial_obs
                if V.canon(got_obs) != V.canon(exp_obs):
                    idx = next((i for i in range(len(exp_obs)) if V.canon(got_obs[i]) != V.canon(exp_obs[i])), 0)
                    run.violate('policy_outcome', 'wrong-answer:call:%s' % why[idx],
                                'replayed calls before the missing-key error were answered %s, the documented policy gives %s' % (V.short(got_obs, 500), V.short(exp_obs, 500)))
            if not ok:
                run.violate('policy_outcome', 'expected-missing-key-error:got-%s@%s' % (rep.outcome.kind if rep.outcome.kind == 'return' else type(rep.outcome.exc).__name__, at),
                            'the recording has no entry and no policy applies: expected RecordingKeyError, play() gave %r (observed so far %s)' % (
                                rep.outcome, V.short(rep.svc.last_result, 300)))
        else:
            if rep.outcome.kind != 'return':
                ex = rep.outcome.exc
                run.violate('policy_outcome', 'play-raised:%s@%s' % (type(ex).__name__, at),
                            'model predicts the replay completes (%s), call #%d answered by %s, but play() raised %r' % (exp_end, done, at, ex))
            else:
                got = rep.op_outcome
                if exp_end == 'return':
                    ok = got is not None and got.kind == 'return' and V.canon(got.value['obs']) == V.canon(exp_obs)
                    if not ok:
                        gobs = got.value['obs'] if got is not None and got.kind == 'return' else repr(got)
                        idx = next((i for i in range(min(len(gobs), len(exp_obs))) if V.canon(gobs[i]) != V.canon(exp_obs[i])), None) if isinstance(gobs, list) else None
                        what = 'call'
                        if idx is not None:
                            what = 'call:%s' % why[idx]
                        run.violate('policy_outcome', 'wrong-answer:%s' % what,
                                    'replayed calls were answered %s, the documented policy gives %s' % (V.short(gobs, 500), V.short(exp_obs, 500)))
                else:
                    ok = got is not None and got.kind == 'raise' and type(got.exc).__name__ == exp_end
                    run.check(ok, 'policy_outcome', 'operation-end', lambda: 'operation should end by %s, ended %r' % (exp_end, got))
        # tripwire: only run-original bodies execute
        ran = [j[1] for j in rep.env.journal]
        pred = exp_bodies
        if ran != pred and len(run.violations) == nviol:
            run.violate('bodies_not_executed', 'unexpected-body' if len(ran) > len(pred) else 'missing-body',
                        'wrapped bodies executed in replay: %s, policy allows exactly %s' % (ran, pred))
        if exp_bodies:
            run.probe('run_original')
        summaries.append(R.call_outcome(lambda: None) and summary_of(rep))
    # cassette untouched
    muts = spy.mutations()
    run.check(not muts, 'cassette_untouched', 'cassette-call:%s' % (muts[0][0] if muts else ''),
              lambda: 'play() reached the cassette with %s (recording enabled=%s)' % (muts, enabled))
    after = store.snapshot()
    run.check(before == after, 'cassette_untouched', 'durable-state-changed',
              lambda: 'durable state changed during play(): keys before %s after %s' % (sorted(flatten_keys(before))[:6], sorted(flatten_keys(after))[:6]))
    for s in summaries[1:]:
        run.check(s == summaries[0], 'replays_identical', 'replay-differs', 'repeated replays of the same recording differ')
    if nreplays == 3:
        run.probe('three_replays')
    # replay of an id that was never saved
    unknown = rec.rec_id[:-6] + 'abcdef'
    rep = R.replay_once(spec2, run, spy, unknown, overrides=overrides_of(spec2, opts), enable_recording=enabled, recorder=shared)
    run.probe('unknown_id')
    ok = rep.outcome.kind == 'raise' and isinstance(rep.outcome.exc, NoSuchRecording)
    if not ok or rep.env.journal or spy.mutations():
        run.violate('unknown_id_signalled', 'unknown-id:%s' % ('bodies-ran' if rep.env.journal else (rep.outcome.kind if rep.outcome.kind == 'return' else type(rep.outcome.exc).__name__)),
                    'play(<never saved id>) on %s: outcome %r, bodies executed %s, cassette calls %s' % (store.describe(), rep.outcome, rep.env.journal[:3], spy.mutations()))


def classify(spec2, opts, exp, got):
    alias = exp[1]
    o = opts['in'].get(alias) or opts['out'].get(alias)
    if exp[0] == 'in' and o.substitute[0] != 'none' and not o.run_original:
        if exp[2] == 'value' and V.canon(exp[3]) == V.canon(o.substitute[1]):
            return 'substitute-%s' % ('falsy' if not o.substitute[1] else 'truthy')
    if exp[0] == 'out':
        return 'output-result'
    return 'input-value'


def flatten_keys(snap):
    out = []
    for k, v in snap.items():
        if isinstance(v, dict):
            out.extend('%s/%s' % (k, kk) for kk in v)
        else:
            out.append(k)
    return out


def summary_of(rep):
    if rep.outcome.kind != 'return':
        return (rep.outcome.kind, type(rep.outcome.exc).__name__)
    pb = rep.playback
    return ('return', sorted(R.outputs_as_map(pb.playback_outputs)[0].items()), sorted(R.outputs_as_map(pb.recorded_outputs)[0].items()))


# ------------------------------------------------------------------------------------------ the fixed pair (table)
def fixed_pair():
    spec = R.ServiceSpec()
    a = R.InputSpec(0)
    a.npos = 1
    a.pool = [((1,), {}), ((2,), {}), ((True,), {})]
    b = R.InputSpec(1)
    b.npos = 1
    b.pool = [(('x',), {}), (('y',), {})]
    o = R.OutputSpec(0)
    c = R.InputSpec(2)
    c.npos = 1
    c.pool = [((1,), {}), ((2,), {}), ((True,), {})]
    spec.inputs, spec.outputs = [a, b, c], [o]
    vals = {('in0', 0): ('value', 'a-one'), ('in0', 1): ('value', 'a-two'), ('in0', 2): ('value', 'a-true'),
            ('in1', 0): ('value', ['b-x']), ('in1', 1): ('raise', R.D.ErrA),
            ('in2', 0): ('value', 'legacy-one'), ('in2', 1): ('value', 'legacy-two'), ('in2', 2): ('value', 'legacy-true')}
    for i in (a, b, c):
        for n, (args, kw) in enumerate(i.pool):
            for dep in ('d0', 'd1'):
                i.outcomes[(R.resolved_alias(i, dep), R.model_captured(i, args, kw))] = vals[(i.alias, n)]
    # recorded: in0(1), in1('x'), in1('y'), in2(1), in2(2), out0
    spec.body = [['in', 0, 0, 0, None], ['in', 1, 0, 0, None], ['in', 1, 1, 0, None], ['in', 2, 0, 0, None], ['in', 2, 1, 0, None],
                 ['out', 0, (('sent',), {}), ('value', 'res1'), None]]
    return spec


def decode_row(idx):
    vals = []
    for d in DIMS:
        vals.append(d[idx % len(d)])
        idx //= len(d)
    return vals


def table_row(tape, clock):
    run = Run(PROP)
    idx = tape.draw(NROWS)
    fb, run_orig, subst, fail_on, default, enabled = decode_row(idx)
    spec = fixed_pair()
    spec2 = copy.copy(spec)
    # P': present call, absent call (new argument), call through a renamed alias, extra output call
    spec2.body = [['in', 0, 0, 0, None], ['in', 0, 1, 0, None], ['in', 1, 0, 0, None], ['in', 0, 2, 1, None],
                  ['out', 0, (('sent',), {}), ('value', 'res1'), None], ['out', 0, (('sent2',), {}), ('value', 'res2'), None]]
    opts = {'in': {}, 'out': {}}
    oa, ob, oo = Opt(), Opt(), Opt()
    oa.run_original, oa.substitute = run_orig, subst
    ob.alias = 'renamed_in1'
    ob.fallback_kind = fb
    ob.fallback_names = [] if fb == 'none' else ['never_there', '<old>']
    ob.run_original, ob.substitute = run_orig, subst
    oo.fail_on, oo.default = fail_on, default
    oc = Opt()
    # in0 falls back to the alias in2 (recorded with the same arguments): in0(1) is present under both -> own alias wins;
    # in0(2) is present only under in2 -> the fallback answers; in0(True) is absent under both -> policy
    if fb != 'none':
        oa.fallback_kind = fb
        oa.fallback_names = ['in2']
    opts['in'] = {'in0': oa, 'in1': ob, 'in2': oc}
    opts['out'] = {'out0': oo}
    store = C.gen_store(tape, clock)
    run.probe('table_row')
    if subst[0] == 'value' and not subst[1]:
        run.probe('substitute_falsy')
    if subst[0] == 'callable':
        run.probe('substitute_callable')
    if not fail_on:
        run.probe('default_result')
    else:
        run.probe('missing_result_error')
    try:
        execute(run, tape, clock, spec, spec2, opts, enabled, 1 + tape.draw(3), store,
                'row %d fallback=%s run_original=%s substitute=%s fail_on=%s default=%r enabled=%s' % (idx, fb, run_orig, V.short(subst), fail_on, default, enabled))
    finally:
        store.close()
    return run


# ------------------------------------------------------------------------------------------ random pairs
def random_pair(tape, clock, debug=False):
    run = Run(PROP)
    if debug:
        run.probe('library_logging_at_debug_level')
    V.set_flavour(tape)
    spec = R.gen_service(tape, run, max_steps=12, max_inputs=3, max_outputs=2, threads=False)
    for i in spec.inputs:
        i.nested = None
    R.fill_outcomes(tape, run, spec)
    if tape.draw(8) == 7:
        spec.body.append(['raise', R.D.ErrB])
    if tape.draw(12) == 11:
        # the recorded run was cut short before its first interception: a saved recording without a single entry
        spec = copy.copy(spec)
        full_body = spec.body
        spec.body = [['interrupt']]
        run.probe('replay_of_a_recording_without_entries')
    else:
        full_body = None
    spec2 = copy.copy(spec)
    spec2.inputs = [copy.copy(i) for i in spec.inputs]
    for i in spec2.inputs:
        i.pool = list(i.pool)
        i.outcomes = dict(i.outcomes)
    spec2.outputs = [copy.copy(o) for o in spec.outputs]
    spec2.body = [list(st) for st in (full_body if full_body is not None else spec.body) if st[0] not in ('raise', 'interrupt')]
    opts = {'in': {}, 'out': {}}
    short_used = []
    for i in spec2.inputs:
        o = Opt()
        if tape.draw(3) == 2:
            o.alias = 'ren_' + i.alias + ('.{name}' if i.resolver else '')
            if tape.draw(3) == 2 and not short_used and not i.resolver:
                # the new name of the input happens to be a fragment of the key syntax itself
                free = [a for a in R.SHORT_ALIASES if a not in set(x.alias for x in spec.inputs)]
                if free:
                    o.alias = tape.choice(free)
                short_used.append(o.alias)
                run.probe('renamed_to_key_syntax_fragment')
        o.fallback_kind = tape.choice(FALLBACKS)
        if o.fallback_kind != 'none':
            o.fallback_names = tape.choice([['<old>'], ['never_there', '<old>'], ['never_there'], ['<old>', 'never_there'], []])
            if o.fallback_kind == 'list' and i.resolver:
                o.fallback_names = [i.alias + '.d0' if n == '<old>' else n for n in o.fallback_names]
        o.run_original = tape.draw(4) == 3
        o.substitute = tape.choice(SUBSTITUTES)
        opts['in'][i.alias] = o
        # calls P never made
        if i.kind != 'property' and i.capture != [] and (i.npos or i.kwnames) and tape.draw(2):
            seen = set(R.model_captured(i, a, k) for a, k in i.pool)
            for _ in range(3):
                args = tuple(('absent', tape.draw(5)) for _ in range(i.npos))
                kwargs = dict((k, ('absent', tape.draw(5))) for k in i.kwnames)
                c = R.model_captured(i, args, kwargs)
                if c not in seen:
                    i.pool.append((args, kwargs))
                    for dep in ('d0', 'd1'):
                        i.outcomes[(R.resolved_alias(i, dep), c)] = R.gen_outcome(tape, run, 2)
                    pos = tape.draw(len(spec2.body) + 1)
                    spec2.body.insert(pos, ['in', i.idx, len(i.pool) - 1, tape.draw(2), None])
                    break
    # the same call on the OTHER instance of a resolver input (its alias resolves differently): recorded for one instance only
    for i in spec2.inputs:
        if i.resolver and tape.draw(2) == 1:
            made = set((st[2] % len(i.pool), st[3] % 2) for st in spec.body if st[0] == 'in' and st[1] == i.idx)
            lonely = sorted((n, d) for (n, d) in made if (n, 1 - d) not in made)
            if lonely:
                n, d = tape.choice(lonely)
                after = max(k for k, st in enumerate(spec2.body) if st[0] == 'in' and st[1] == i.idx and st[2] % len(i.pool) == n and st[3] % 2 == d)
                spec2.body.insert(after + 1 + tape.draw(len(spec2.body) - after), ['in', i.idx, n, 1 - d, None])
                run.probe('same_call_on_the_other_instance_of_a_resolver_input')
    for o_ in spec2.outputs:
        o = Opt()
        o.fail_on = tape.draw(2) == 0
        o.default = tape.choice([None, 'dflt', 0, ('d', 1)])
        opts['out'][o_.alias] = o
        if tape.draw(3) == 2:
            spec2.body.append(['out', o_.idx, (('extra',), {}), ('value', 'never-recorded'), None])
    if tape.draw(8) == 7:
        spec2.body.append(['raise', R.D.ErrA])
    # replayed code may ask for a discard or forced sampling (no recording is active in replay: both must be no-ops),
    # and an output data handler may fail while the replayed call is captured: the call is still answered from the recording
    if tape.draw(3) == 2:
        for _ in range(1 + tape.draw(2)):
            spec2.body.insert(tape.draw(len(spec2.body) + 1), [tape.choice(['discard', 'force'])])
        run.probe('discard_or_force_called_in_replay')
    if tape.draw(4) == 3:
        outs = [st for st in spec2.body if st[0] == 'out' and spec2.outputs[st[1]].handler]
        if outs:
            tape.choice(outs)[4] = 'handler_raises'
            run.probe('output_handler_fails_in_replay')
    # an alias recorded by another input with the same arguments as a lower-priority fallback: the own alias must win
    for i in spec2.inputs:
        o = opts['in'][i.alias]
        if o.alias is None and tape.draw(3) == 2:
            twins = [j for j in spec.inputs if j.idx != i.idx and j.kind == i.kind and not j.resolver and not i.resolver and j.capture == i.capture
                     and j.npos == i.npos and j.kwnames == i.kwnames]
            if twins:
                j = tape.choice(twins)
                o.fallback_kind = tape.choice(['list', 'fn'])
                o.fallback_names = [j.alias] + ([n for n in o.fallback_names if n != '<old>'])
                run.probe('fallback_to_other_recorded_alias')
    if tape.draw(4) == 3:
        cands = [st for st in spec2.body if st[0] == 'in' and spec2.inputs[st[1]].handler and st[4] is None]
        if cands:
            tape.choice(cands)[4] = 'restore_raises'
            run.probe('input_handler_fails_to_restore_in_replay')
    store = C.gen_store(tape, clock)
    try:
        execute(run, tape, clock, spec, spec2, opts, bool(tape.draw(2)), 1 + tape.draw(3), store, 'random')
    finally:
        store.close()
    return run


def nested_in_run_original(tape, clock):
    """A new high-level input wrapped around already recorded low-level reads: it is absent from the recording and opted
    in to run its original, and that original itself calls intercepted inputs and an intercepted output.  Only the
    opted-in body may run; every inner call is still answered from the recording or by its own policy."""
    run = Run(PROP)
    run.probe('run_original_body_calls_intercepted_functions')
    run.nontrivial = True
    store = C.gen_store(tape, clock)
    pool = [1, 'usd', (2, 'x'), 0, '', 'eur', 7.5, None]
    xs = tape.shuffle(pool)[:1 + tape.draw(3)]
    absent = tape.choice(['none', 'strict', 'substitute', 'substitute_falsy', 'run_original'])
    x_absent = ('never', tape.draw(3))
    static_low = bool(tape.draw(2))
    kind_of_high = tape.choice(['instance', 'static'])
    out_recorded = bool(tape.draw(2))       # P sent one output through `emit`, so call #1 has a recorded result
    low_opts = {}
    if absent in ('substitute', 'substitute_falsy'):
        low_opts['value_when_missing'] = ('subst', 1) if absent == 'substitute' else 0
    if absent == 'run_original':
        low_opts['run_intercepted_when_missing'] = True
    journal = []
    phase = {'name': 'rec'}
    holder = {}

    def build(recorder):
        def low_body(x):
            journal.append(('low', x))
            return (phase['name'], x)

        def high_body(svc, req):
            journal.append(('high',))
            vals = [svc.low(x) for x in req]
            return (vals, svc.emit('total', len(vals)))

        class Svc(object):
            @recorder.operation()
            def execute(self, req):
                if phase['name'] == 'rec':
                    got = [self.low(x) for x in req]
                    return (got, self.emit('total', len(got)) if out_recorded else None)
                return self.high(req)

            if static_low:
                low = staticmethod(recorder.static_intercept_input('low', **low_opts)(low_body))
            else:
                @recorder.intercept_input('low', **low_opts)
                def low(self, x):
                    return low_body(x)

            @recorder.intercept_output('emit', fail_on_no_recorded_result=False, default_result_when_not_recorded='dflt')
            def emit(self, what, n):
                journal.append(('emit', what, n))
                return 'sent-%s' % phase['name']

            if kind_of_high == 'static':
                high = staticmethod(recorder.static_intercept_input('high', run_intercepted_when_missing=True)(
                    lambda req: high_body(holder['current'], req)))
            else:
                @recorder.intercept_input('high', run_intercepted_when_missing=True)
                def high(self, req):
                    return high_body(self, req)
        R.D.register('Svc', Svc)
        return Svc
    try:
        cas = store.open()
        recorder = TapeRecorder(cas)
        recorder.enable_recording()
        Svc = build(recorder)
        svc = Svc()
        holder['current'] = svc
        out = R.call_outcome(lambda: svc.execute(list(xs)))
        ids = list(store.open(read_only=True).iter_recording_ids('Svc'))
        if out.kind != 'return' or len(ids) != 1:
            run.violate('recording_saved', 'not-saved', 'fault-free recording failed: %r %s' % (out, ids))
            return run
        # ---- replay with the new high-level input
        phase['name'] = 'live'
        del journal[:]
        cas2 = store.open(read_only=True)
        spy = R.SpyCassette(cas2, run)
        rep_recorder = TapeRecorder(spy)
        if tape.draw(2):
            rep_recorder.enable_recording()
        Svc2 = build(rep_recorder)
        svc2 = Svc2()
        holder['current'] = svc2
        req = list(xs)
        if absent != 'none':
            req.insert(tape.draw(len(req) + 1), x_absent)
        res = R.call_outcome(lambda: rep_recorder.play(ids[0], lambda recording: svc2.execute(list(req))))
        run.say('recorded low(%s)%s; replay asks high(%s) (absent from the recording, runs its original), low is %s, policy for the absent low call: %s' % (
            V.srepr(xs), ' and emit' if out_recorded else '', V.srepr(req), 'static' if static_low else 'instance', absent))
        exp_journal = [('high',)] + ([('low', x_absent)] if absent == 'run_original' else [])
        if absent == 'strict':
            ok = res.kind == 'raise' and isinstance(res.exc, RecordingKeyError)
            run.check(ok, 'policy_outcome', 'expected-missing-key-error:nested-in-run-original',
                      lambda: 'the run-original body asked for an input that is not recorded and has no policy: expected RecordingKeyError, got %r' % (res,))
            exp_journal = [('high',)]
        else:
            exp_vals = []
            for x in req:
                if x == x_absent and absent != 'none':
                    exp_vals.append({'substitute': ('subst', 1), 'substitute_falsy': 0, 'run_original': ('live', x)}[absent])
                else:
                    exp_vals.append(('rec', x))
            exp_emit = 'sent-rec' if out_recorded else 'dflt'
            if res.kind != 'return':
                run.violate('policy_outcome', 'play-raised:%s@nested-in-run-original' % type(res.exc).__name__, 'play raised %r' % (res.exc,))
            else:
                outs = [o for o in res.value.playback_outputs if TapeRecorder.OPERATION_OUTPUT_ALIAS in o.key]
                got = outs[0].value['args'][0] if outs else None
                run.check(V.canon(got) == V.canon((exp_vals, exp_emit)), 'policy_outcome', 'wrong-answer:nested-in-run-original',
                          lambda: 'inside the run-original body the calls were answered %s, recording and policy give %s' % (V.short(got, 300), V.short((exp_vals, exp_emit), 300)))
        run.check(journal == exp_journal, 'bodies_not_executed', 'unexpected-body:nested-in-run-original' if len(journal) > len(exp_journal) else 'missing-body:nested-in-run-original',
                  lambda: 'wrapped bodies executed in replay: %s, policy allows exactly %s' % (journal, exp_journal))
        run.check(not spy.mutations(), 'cassette_untouched', 'cassette-call:nested', lambda: 'play() reached the cassette with %s' % (spy.mutations(),))
        run.ev('nested', V.srepr(xs), V.srepr(req), absent, static_low, kind_of_high, out_recorded, store.describe(), [v.signature for v in run.violations])
    finally:
        store.close()
    return run


def replay_during_recording(tape, clock):
    """History: a recording is in progress on the recorder (recording enabled) when a saved recording is replayed - the
    recorded operation itself replays it from its plain code, before, between or after its own interceptions.  The replay
    still answers every call from the recording, runs no body, and leaves no trace in the recording being made."""
    run = Run(PROP)
    run.probe('replay_while_a_recording_is_in_progress')
    run.nontrivial = True
    store = C.gen_store(tape, clock)
    n_out = tape.draw(4)
    place = tape.draw(4)             # 0 before the first interception ... 3 after the last
    reps = 1 + tape.draw(2)
    arg = tape.choice([3, 'usd', (2, 'x'), 0])
    run.say('replay of a saved recording (%d outputs) %d time(s) from inside a recorded operation, at position %d; cassette %s'
            % (n_out, reps, place, store.describe()))
    run.ev('case-during', n_out, place, reps, V.srepr(arg), store.describe())
    try:
        spy = R.SpyCassette(store.open(), run)
        recorder = TapeRecorder(spy)
        recorder.enable_recording()
        journal, world, found = [], {'k': 1}, []

        class Inner(object):
            @recorder.operation()
            def execute(self, a):
                r = self.rate(a)
                return [r, [self.send(r, i) for i in range(n_out)]]

            @recorder.intercept_input('inner_rate')
            def rate(self, a):
                journal.append(('rate', a))
                return [world['k'], a]

            @recorder.intercept_output('inner_send')
            def send(self, r, i):
                journal.append(('send', i))
                return 'sent-%d-%d' % (i, world['k'])

        class Outer(object):
            @recorder.operation()
            def execute(self):
                got = []
                for pos in range(4):
                    if pos == place:
                        for _ in range(reps):
                            del journal[:]
                            try:
                                pb = recorder.play(rid0, lambda r_: Inner().execute(arg))
                                found.append(('played', sorted((o.key, V.srepr(o.value)) for o in pb.playback_outputs), list(journal)))
                            except Exception as ex:      # judged below, the outer operation goes on
                                found.append(('raised', ex, list(journal)))
                    if pos == 0:
                        got.append(self.read('a'))
                    elif pos == 1:
                        got.append(self.emit(got[0]))
                    elif pos == 2:
                        got.append(self.read('b'))
                return got

            @recorder.intercept_input('outer_read')
            def read(self, name):
                return [name, world['k']]

            @recorder.intercept_output('outer_emit')
            def emit(self, v):
                return 'emitted'
        R.D.register('Inner', Inner)
        R.D.register('Outer', Outer)
        live0 = Inner().execute(arg)
        rid0 = [c[1] for c in spy.mutations() if c[0] == 'save'][0]
        r0 = spy.inner.get_recording(rid0)
        snap0 = sorted((k, V.srepr(r0.get_data(k))) for k in r0.get_all_keys())
        expected = sorted((o.key, V.srepr(o.value)) for o in TapeRecorder._extract_recorded_output(r0))
        world['k'] = 5
        spy.calls[:] = []
        Outer().execute()
        run.ev('found', [(f[0], V.srepr(f[1]) if f[0] == 'played' else type(f[1]).__name__, f[2]) for f in found])
        for f in found:
            if f[0] == 'raised':
                run.violate('policy_outcome', 'play-raised:%s@replay-during-recording' % type(f[1]).__name__,
                            'replay of a present recording raised %r while another recording was in progress' % (f[1],))
                continue
            run.check(not f[2], 'bodies_not_executed', 'unexpected-body:replay-during-recording',
                      lambda: 'bodies executed during the replay: %s' % f[2])
            run.check(f[1] == expected, 'policy_outcome', 'wrong-answer:replay-during-recording',
                      lambda: 'recorded outputs %s, replay produced %s' % (expected, f[1]))
        calls = spy.mutations()
        saved = [c[1] for c in calls if c[0] == 'save']
        run.check([c[0] for c in calls] == ['create', 'save'] and rid0 not in saved, 'cassette_untouched', 'cassette-call:replay-during-recording',
                  lambda: 'expected the one recording of the outer operation to be created and saved, saw %s' % calls)
        cas2 = store.open(read_only=True)
        r0b = cas2.get_recording(rid0)
        snap1 = sorted((k, V.srepr(r0b.get_data(k))) for k in r0b.get_all_keys())
        run.check(snap0 == snap1, 'cassette_untouched', 'durable-state-changed:replay-during-recording',
                  'the replayed recording changed in the cassette')
        for rid in saved:
            if rid == rid0:
                continue
            keys = sorted(cas2.get_recording(rid).get_all_keys())
            foreign = [k for k in keys if 'inner_' in k]
            run.check(not foreign, 'cassette_untouched', 'replay-left-keys-in-the-recording-in-progress',
                      lambda: 'the recording made meanwhile holds keys of the replayed operation: %s' % foreign)
    finally:
        store.close()
    return run


def run_index(i, seed, tier, emit):
    mod = sys.modules[__name__]
    if i < NCHUNKS:
        for row in range(i * CHUNK, min(NROWS, (i + 1) * CHUNK)):
            t = Tape(seed, prefix=[1, row])
            emit(safe_run_tape(mod, t), t)
        return
    t = Tape(seed, prefix=[[0, 0, 3][i % 3]])
    emit(safe_run_tape(mod, t), t)
    if i % 3 == 2:
        t = Tape(seed, prefix=[3, 0, 2])
        emit(safe_run_tape(mod, t), t)
