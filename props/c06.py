"""C06 Input lookup keys identify calls by alias and captured argument values only (DESIGN.md section 4, C06).

Honest scope: the key builder is a pure function; what the simulator contributes is the environment
nondeterminism the property names - process restart and PYTHONHASHSEED - with the record/replay pipeline as the
observer.  There is no schedule or fault dimension."""
import copy
import json
import os
import shutil
import subprocess
import sys
import tempfile

from simkit import seams, VERIF
from simkit import values as V
from simkit.core import Run, HarnessError, Violation
from simkit.tape import Tape, replay_tape

from playback.tape_recorder import TapeRecorder, CapturedArg
from playback.tape_cassettes.file_based.file_based_tape_cassette import FileBasedTapeCassette

from engines import recplay as R
from engines import cassettes as C

PROP = 'C06'
HASH_SEEDS = ['1', '77', '4242', '31337', '271828', '99991', '5', '123456789']

META = {
    'engine': 'recplay',
    'level': 'exploration',
    'level_text': ('Seeded services whose inputs are called with families of arguments: structurally equal calls written differently '
                   '(dict insertion order, attribute order, set insertion order, excluded arguments varied) and nearly equal calls '
                   '(1 / True / 1.0 / "1", tuple vs list, nested differences, other alias parameters, static vs instance).  Every canonical '
                   'call records a unique token; replay in the same process and in a fresh interpreter started with another PYTHONHASHSEED '
                   '(file cassette as durable state) must hand each call exactly its own token, and the recording must hold one key per '
                   'canonical call. Aliases resolved from the call\'s own arguments (positional / keyword / defaulted, excluded from capture), the same input called from two threads, and a replay whose threads look keys up at the same time.'),
    'level_note': 'Trusted: structural canonical form simkit.values.canon (types included) as the definition of "same call"; generator determinism across hash seeds (self-tested). Calling convention (positional vs keyword) is treated as part of the call.',
    'rule': ('evaluation = one generated service (2-4 inputs, 3-10 distinct canonical calls each) recorded once and replayed with re-spelt '
             'arguments, in-process or across two interpreters with different hash seeds; non-trivial = at least one call was re-spelt '
             'differently or had a near-miss sibling; distinct = distinct event-log digest.'),
    'assumptions': ['tree-shaped argument values in the faithful domain', 'positional vs keyword passing of the same argument is part of the call identity',
                    'aliases do not contain the key syntax'],
    'components_real': ['TapeRecorder key builder, capture selection, alias resolver, record + play', 'FileBasedTapeCassette / InMemoryTapeCassette', 'jsonpickle'],
    'components_stub': ['service and environment', 'uuid / clock', 'process restart driven by the harness (real fresh interpreters)'],
    'budgets': {'quick': {'seconds': 35}, 'thorough': {'seconds': 600}},
    'required_probes': {'quick': ['cross_process'], 'thorough': ['cross_process', 'resolver_reads_call_arguments', 'set_of_strings_argument', 'capture_subset', 'resolver_alias', 'near_miss_pair', 'long_argument', 'keys_built_concurrently']},
}


def near_miss(tape, v):
    """A value that is structurally different from v but close to it."""
    k = tape.draw(4)
    if isinstance(v, bool):
        return [int(v), str(v), not v, None][k]
    if isinstance(v, int):
        return [v + 1, float(v), str(v), True if v == 1 else (False if v == 0 else -v - 1)][k]
    if isinstance(v, float):
        return [v + 0.5, str(v), [v], -v - 1.0][k]
    if isinstance(v, str):
        return [v + ' ', v.encode('utf-8'), [v], v.upper() + '_'][k]
    if isinstance(v, bytes):
        return [v + b'.', v.decode('latin-1') + '~', [v], (v,)][k]
    if v is None:
        return [False, 0, 'None', []][k]
    if isinstance(v, list) and len(v) > 50:
        return [v[:-1] + [v[-1] + 1], v[:-1], v + [v[-1]], v[1:]][k]
    if isinstance(v, str) and len(v) > 500:
        return [v[:-1] + 'y', v[:-1], v + 'x', 'y' + v[1:]][k]
    if isinstance(v, list):
        if v and k == 0:
            i = tape.draw(len(v))
            return v[:i] + [near_miss(tape, v[i])] + v[i + 1:]
        return [v + [None], tuple(v), v + [None], {'k': v}][k]
    if isinstance(v, tuple):
        return [v + (None,), list(v), (v,), v + (0,)][k]
    if isinstance(v, set):
        return [set(v) | {'extra'}, sorted(v, key=repr), tuple(sorted(v, key=repr)), set(v) | {-77}][k]
    if isinstance(v, dict):
        if v and k == 0:
            key = sorted(v)[tape.draw(len(v))]
            d = dict(v)
            d[key] = near_miss(tape, v[key])
            return d
        if v and k == 1:
            key = sorted(v)[tape.draw(len(v))]
            d = dict(v)
            d[key + '_'] = d.pop(key)
            return d
        return [dict(v, extra=None), sorted(v.items()), dict(v, extra=None), [v]][k]
    if isinstance(v, (R.D.Pt, R.D.Box)):
        other = R.D.Box if type(v) is R.D.Pt else R.D.Pt
        if k == 0:
            return other(**v.__dict__)
        if k == 1:
            return dict(v.__dict__)
        return type(v)(**dict(v.__dict__, extra=k))
    return [v]


def build(tape, run):
    """(spec, spec2): spec2 is spec with every call re-spelt in a structurally equal way."""
    V.FLAVOUR['objects'], V.FLAVOUR['sharing'] = True, False
    spec = R.ServiceSpec()
    spec.op.name = tape.choice(R.OP_NAMES)
    ninputs = 2 + tape.draw(3)
    token = [0]
    stats = {'respelt': 0, 'near': 0}
    for idx in range(ninputs):
        i = R.InputSpec(idx)
        i.kind = tape.weighted([(3, 'instance'), (2, 'static')])
        i.npos = 1 + tape.draw(2)
        i.kwnames = ['kw', 'opt'][:tape.draw(3)]
        i.resolver = i.kind == 'instance' and tape.draw(3) == 2
        i.mutates_args = tape.draw(4) == 3      # the recorded body changes its arguments in place; the key is that of the call
        c = tape.draw(4)
        base = 1 if i.kind != 'static' else 0
        if c == 2:
            i.capture, i.capture_desc = [], 'none'
        elif c == 3:
            caps = [CapturedArg(base + p, 'p%d' % p) for p in range(i.npos) if tape.draw(2)] + \
                   [CapturedArg(None, k) for k in i.kwnames if tape.draw(2)]
            i.capture = caps or [CapturedArg(base, 'p0')]
            i.capture_desc = ','.join('%s@%s' % (c_.name, c_.position) for c_ in i.capture)
            run.probe('capture_subset')
        if i.resolver:
            run.probe('resolver_alias')
        # families of calls: a base call, near-miss siblings
        seen = {}
        for fam in range(1 + tape.draw(3)):
            args = tuple(V.gen_faithful(tape, run, 2) for _ in range(i.npos))
            if tape.draw(5) == 4:
                # a long argument (serialized key part of several thousand characters)
                n = tape.choice([110, 125, 200, 600])
                big = tape.choice([list(range(1000, 1000 + n)), 'long-' + 'x' * (n * 17), dict(('key%03d' % q, q) for q in range(n)), set('s%04d' % q for q in range(n))])
                args = (big,) + args[1:]
                run.probe('long_argument')
            kwargs = dict((k, V.gen_faithful(tape, run, 2)) for k in i.kwnames if tape.draw(2))
            calls = [(args, kwargs)]
            for _ in range(tape.draw(4)):
                a2, k2 = list(args), dict(kwargs)
                slots = list(range(len(a2))) + sorted(k2)
                slot = slots[tape.draw(len(slots))]
                if isinstance(slot, int):
                    a2[slot] = near_miss(tape, a2[slot])
                else:
                    k2[slot] = near_miss(tape, k2[slot])
                if V.faithful(a2) and V.faithful(k2):
                    calls.append((tuple(a2), k2))
            fresh = 0
            for a, k in calls:
                cap = R.model_captured(i, a, k)
                if cap not in seen:
                    seen[cap] = True
                    i.pool.append((a, k))
                    fresh += 1
            if fresh > 1:
                stats['near'] += fresh - 1
        for (a, k) in i.pool:
            if has_str_set((a, k)):
                run.probe('set_of_strings_argument')
            for dep in ('d0', 'd1'):
                key = (R.resolved_alias(i, dep), R.model_captured(i, a, k))
                if key not in i.outcomes:
                    token[0] += 1
                    i.outcomes[key] = ('value', 'token-%d-%s' % (token[0], key[0]))
        spec.inputs.append(i)
    # the recorded body: every call once (both dependency objects for resolver aliases), in shuffled order
    body = []
    for i in spec.inputs:
        for n in range(len(i.pool)):
            body.append(['in', i.idx, n, 0, None])
            if i.resolver or tape.draw(3) == 2:
                body.append(['in', i.idx, n, 1, None])
    spec.body = tape.shuffle(body)
    # the replayed program: same calls, written differently
    spec2 = copy.copy(spec)
    spec2.inputs = []
    for i in spec.inputs:
        j = copy.copy(i)
        j.pool = []
        for (a, k) in i.pool:
            a2 = tuple(V.reorder(tape, x) for x in a)
            k2 = dict((kk, V.reorder(tape, k[kk])) for kk in tape.shuffle(sorted(k)))
            # arguments excluded from capture may differ freely
            if i.capture is not None:
                captured_pos = set(c.position for c in i.capture if c.position is not None)
                captured_names = set(c.name for c in i.capture)
                base = 1 if i.kind != 'static' else 0
                a2 = tuple(x if (base + p) in captured_pos else ('other', tape.draw(9)) for p, x in enumerate(a2))
                k2 = dict((kk, (x if kk in captured_names else ('other', tape.draw(9)))) for kk, x in k2.items())
            if V.srepr(a2) != V.srepr(a) or list(k2) != list(k) or V.srepr(k2) != V.srepr(k):
                stats['respelt'] += 1
            j.pool.append((a2, k2))
        spec2.inputs.append(j)
    spec2.body = tape.shuffle([list(st) for st in spec.body])
    if stats['near']:
        run.probe('near_miss_pair')
    return spec, spec2, stats


def has_str_set(v):
    if isinstance(v, (set, frozenset)):
        return any(isinstance(x, str) for x in v) or any(has_str_set(x) for x in v)
    if isinstance(v, (list, tuple)):
        return any(has_str_set(x) for x in v)
    if isinstance(v, dict):
        return any(has_str_set(x) for x in v.values())
    if hasattr(v, '__dict__'):
        return has_str_set(v.__dict__)
    return False


def has_set(v):
    if isinstance(v, (set, frozenset)):
        return len(v) >= 2 or any(has_set(x) for x in v)
    if isinstance(v, (list, tuple)):
        return any(has_set(x) for x in v)
    if isinstance(v, dict):
        return any(has_set(x) for x in v.values())
    if hasattr(v, '__dict__'):
        return has_set(v.__dict__)
    return False


def expected_obs(spec2):
    out = []
    for st in spec2.body:
        i = spec2.inputs[st[1]]
        a, k = i.pool[st[2]]
        dep = 'd%d' % (st[3] % 2)
        out.append(['in', i.alias, 'value', i.outcomes[(R.resolved_alias(i, dep), R.model_captured(i, a, k))][1]])
    return out


def check_keys(run, spec, rec):
    r = rec.spy.created.get(rec.rec_id)
    keys = [k for k in r.get_all_keys() if k.startswith('input:')]
    distinct = set()
    for st in spec.body:
        i = spec.inputs[st[1]]
        a, k = i.pool[st[2]]
        distinct.add((R.resolved_alias(i, 'd%d' % (st[3] % 2)), R.model_captured(i, a, k)))
    if len(keys) != len(distinct):
        run.violate('one_key_per_canonical_call', 'keys-%s' % ('collide' if len(keys) < len(distinct) else 'split'),
                    'the recording holds %d input keys for %d distinct canonical calls' % (len(keys), len(distinct)))


def check_replay(run, spec2, rep, where):
    if rep.outcome.kind != 'return':
        ex = rep.outcome.exc
        done = len(rep.svc.partial_obs or [])
        st = spec2.body[done] if done < len(spec2.body) else None
        culprit = ''
        if st is not None:
            a, k = spec2.inputs[st[1]].pool[st[2]]
            culprit = ':set-argument' if has_set((a, k)) else ':other'
        run.violate('own_value_on_replay', 'missed-key-%s%s' % (where, culprit),
                    '%s replay: call #%d %s raised %r' % (where, done, V.short(spec2.inputs[st[1]].pool[st[2]], 200) if st else '', ex))
        return
    exp = expected_obs(spec2)
    got = rep.op_outcome.value['obs'] if rep.op_outcome and rep.op_outcome.kind == 'return' else None
    if got != exp:
        idx = next((n for n in range(min(len(got or []), len(exp))) if got[n] != exp[n]), None)
        run.violate('own_value_on_replay', 'wrong-token-%s' % where,
                    '%s replay: call #%s received %s, its own token is %s' % (where, idx, got[idx] if idx is not None and got else got, exp[idx] if idx is not None else exp))
    run.check(not rep.env.journal, 'own_value_on_replay', 'body-executed', 'bodies executed in replay')


def threaded_keys(tape, clock):
    """Two worker threads of one operation build lookup keys at the same time, for different inputs but passing the
    very same argument object (a shared request / configuration object); pre-emption also inside the serializer."""
    import jsonpickle
    from simkit import REPO
    from simkit.sim import Sim, SimDeadlock
    run = Run(PROP)
    run.probe('keys_built_concurrently')
    V.FLAVOUR['objects'], V.FLAVOUR['sharing'] = True, False
    shared = None
    for _ in range(6):
        shared = V.gen_faithful(tape, run, 2)
        if V.is_mutable(shared):
            break
    spec = R.ServiceSpec()
    same_input = tape.draw(2) == 1
    if same_input:
        # both threads call the SAME input, with scalar arguments, in different orders (after one call on the main thread)
        run.probe('same_input_called_from_two_threads')
        i = R.InputSpec(0)
        i.npos = 2
        i.kind = tape.choice(['instance', 'static'])
        if tape.draw(2) == 1:
            # an explicit capture selection, declared in an order that is not the positional one
            base = 1 if i.kind != 'static' else 0
            i.capture = [CapturedArg(base + 1, 'p1'), CapturedArg(base, 'p0')]
            i.capture_desc = 'p1@%d,p0@%d' % (base + 1, base)
            run.probe('capture_selection_used_by_two_threads')
        i.pool = [((7 + n, 'k%d' % n), {}) for n in range(3)]
        for (a, k) in i.pool:
            for dep in ('d0', 'd1'):
                i.outcomes[(R.resolved_alias(i, dep), R.model_captured(i, a, k))] = ('value', 'token-%s' % V.short(a))
        spec.inputs.append(i)
        order1 = [tape.draw(3) for _ in range(2 + tape.draw(3))]
        order2 = [tape.draw(3) for _ in range(2 + tape.draw(3))]
        bodies = [[['in', 0, n, 0, None] for n in order1], [['in', 0, n, 0, None] for n in order2]]
        spec.body = [['in', 0, tape.draw(3), 0, None]]
    else:
        for idx in range(2):
            i = R.InputSpec(idx)
            i.npos = 2
            i.pool = [((shared, idx), {}), ((shared, 'other'), {'kw': shared} if False else {})]
            for (a, k) in i.pool:
                for dep in ('d0', 'd1'):
                    i.outcomes[(R.resolved_alias(i, dep), R.model_captured(i, a, k))] = ('value', 'token-%d-%s' % (idx, V.short(a[1])))
            spec.inputs.append(i)
        bodies = [[['in', 0, 0, 0, None], ['in', 0, 1, 0, None]], [['in', 1, 0, 0, None], ['in', 1, 1, 0, None]]]
        spec.body = []
    spec.body = spec.body + [['spawn', bodies, False]]
    sim = Sim(tape, run, preempt_p=tape.choice([0.02, 0.05, 0.2]),
              target_prefixes=[os.path.join(REPO, 'playback'), os.path.dirname(jsonpickle.__file__)], max_steps=400000)
    store = C.Store('memory', clock=clock)
    res = {}

    def main():
        res['rec'] = R.record_once(spec, run, store.open(), rseed=1, thread_factory=R.sim_thread_factory(sim))
    try:
        sim.run_main(main)
    except SimDeadlock as ex:
        run.violate('own_value_on_replay', 'deadlock', str(ex))
        return run
    rec = res['rec']
    run.nontrivial = sim.switches > 2
    run.say('two threads pass the same %s object to in0 / in1; %d context switches' % (type(shared).__name__, sim.switches))
    run.ev('threaded_keys', V.srepr(shared), sim.switches)
    if not rec.saved or not R.recording_in_faithful_domain(rec):
        run.probe('recording_not_usable')
        return run
    rep = R.replay_once(spec, run, store.open(), rec.rec_id)
    if rep.outcome.kind != 'return':
        run.violate('own_value_on_replay', 'missed-key-after-concurrent-key-building', 'keys were built by two threads at the same time while recording; a sequential replay raised %r' % (rep.outcome.exc,))
        return run
    a = V.canon(rec.outcome.value) if rec.outcome.kind == 'return' else None
    b = V.canon(rep.op_outcome.value) if rep.op_outcome and rep.op_outcome.kind == 'return' else None
    run.check(a == b, 'own_value_on_replay', 'wrong-token-after-concurrent-key-building', 'replay handed other values than recorded')
    if run.violations:
        return run
    # ... and the replay itself with its two threads looking keys up at the same time
    sim2 = Sim(tape, run, preempt_p=tape.choice([0.02, 0.05, 0.2]),
               target_prefixes=[os.path.join(REPO, 'playback'), os.path.dirname(jsonpickle.__file__)], max_steps=400000)
    res2 = {}

    def main2():
        res2['rep'] = R.replay_once(spec, run, store.open(), rec.rec_id, thread_factory=R.sim_thread_factory(sim2))
    try:
        sim2.run_main(main2)
    except SimDeadlock as ex:
        run.violate('own_value_on_replay', 'deadlock', str(ex))
        return run
    rep2 = res2['rep']
    if rep2.outcome.kind != 'return':
        run.violate('own_value_on_replay', 'missed-key-during-concurrent-lookups', 'two threads of the replay looked keys up at the same time; play raised %r' % (rep2.outcome.exc,))
        return run
    c = V.canon(rep2.op_outcome.value) if rep2.op_outcome and rep2.op_outcome.kind == 'return' else None
    run.check(a == c, 'own_value_on_replay', 'wrong-token-during-concurrent-lookups', 'a replay whose two threads looked keys up at the same time handed out other values than recorded')
    return run


def run_tape(tape):
    mode = tape.draw(5)
    if mode == 4:
        with seams.deterministic(tape) as clock:
            return threaded_keys(tape, clock)
    if mode == 1:
        return cross_process_single(tape)
    if mode == 3:
        with seams.deterministic(tape) as clock:
            return resolver_reads_arguments(tape, clock)
    with seams.deterministic(tape) as clock:
        return in_process(tape, clock)


def resolver_reads_arguments(tape, clock):
    """Aliases formatted from the call's own arguments (positional, by keyword, defaulted), with the argument that feeds
    the alias excluded from capture: calls that resolve to different aliases never share a key, equal calls always do."""
    run = Run(PROP)
    run.probe('resolver_reads_call_arguments')
    run.nontrivial = True
    regions = ['eu', 'us', 'apac'][:2 + tape.draw(2)]
    accounts = ['alice', 'bob', ('acct', 7)][:1 + tape.draw(3)]
    static = bool(tape.draw(2))
    capture_region = bool(tape.draw(2))
    styles = ['positional', 'keyword'] if capture_region else ['positional', 'keyword', 'default']     # a captured argument must be passed
    calls = []
    for acc in accounts:
        for reg in regions:
            calls.append((acc, reg, tape.choice(styles if reg == 'eu' else styles[:2])))
    calls = tape.shuffle(calls)
    # (passing a captured argument by position or by keyword is part of the call's identity: the replay keeps the style then)
    replay_calls = tape.shuffle([(acc, reg, st if capture_region else tape.choice(styles if reg == 'eu' else styles[:2])) for acc, reg, st in calls])
    journal = []
    store = C.gen_store(tape, clock, kinds=['memory', 'file'])

    def build(recorder):
        base = 0 if static else 1
        caps = [CapturedArg(base, 'account')] + ([CapturedArg(base + 1, 'region')] if capture_region else [])

        def body(account, region='eu'):
            journal.append((account, region))
            return 'balance of %s in %s' % (V.srepr(account), region)

        class Svc(object):
            @recorder.operation()
            def execute(self, todo):
                out = []
                for acc, reg, style in todo:
                    f = Svc.balance if static else self.balance
                    if style == 'positional':
                        out.append(f(acc, reg))
                    elif style == 'keyword':
                        out.append(f(acc, region=reg))
                    else:
                        out.append(f(acc))
                return out
            if static:
                balance = staticmethod(recorder.static_intercept_input('{region}.balance', capture_args=caps,
                                                                       alias_params_resolver=lambda account, region='eu': {'region': region})(body))
            else:
                @recorder.intercept_input('{region}.balance', capture_args=caps,
                                          alias_params_resolver=lambda self, account, region='eu': {'region': region})
                def balance(self, account, region='eu'):
                    return body(account, region)
        R.D.register('Svc', Svc)
        return Svc
    try:
        cas = store.open()
        recorder = TapeRecorder(cas)
        recorder.enable_recording()
        out = R.call_outcome(lambda: build(recorder)().execute(calls))
        ids = list(cas.iter_recording_ids('Svc'))
        run.say('%s input {region}.balance, region %s; recorded calls %s; replayed calls %s' % (
            'static' if static else 'instance', 'captured' if capture_region else 'excluded from capture', V.srepr(calls), V.srepr(replay_calls)))
        run.ev('resolver', static, capture_region, V.srepr(calls), V.srepr(replay_calls), store.describe())
        if out.kind != 'return' or len(ids) != 1:
            run.violate('own_value_on_replay', 'recording-failed', 'recording failed: %r' % (out,))
            return run
        r = store.open().get_recording(ids[0])
        nkeys = len([k for k in r.get_all_keys() if k.startswith('input:')])
        ncalls = len(set((V.canon(a), reg) for a, reg, _ in calls))
        run.check(nkeys == ncalls, 'one_key_per_canonical_call', 'calls-share-a-key' if nkeys < ncalls else 'equal-calls-under-several-keys',
                  lambda: '%d distinct (account, region) calls were recorded under %d keys' % (ncalls, nkeys))
        del journal[:]
        rep_recorder = TapeRecorder(store.open())
        Svc2 = build(rep_recorder)
        res = R.call_outcome(lambda: rep_recorder.play(ids[0], lambda recording: Svc2().execute(replay_calls)))
        if res.kind != 'return':
            run.violate('own_value_on_replay', 'missed-key-same-process:resolver-argument', 'replay raised %r' % (res.exc,))
            return run
        outs = [o for o in res.value.playback_outputs if TapeRecorder.OPERATION_OUTPUT_ALIAS in o.key]
        got = outs[0].value['args'][0] if outs else None
        exp = ['balance of %s in %s' % (V.srepr(a), reg) for a, reg, _ in replay_calls]
        run.check(got == exp, 'own_value_on_replay', 'wrong-token:resolver-argument', lambda: 'replayed calls got %s, their own recorded values are %s' % (got, exp))
        run.check(not journal, 'own_value_on_replay', 'body-ran-in-replay', lambda: 'bodies ran in replay: %s' % journal[:3])
    finally:
        store.close()
    return run


def in_process(tape, clock):
    run = Run(PROP)
    spec, spec2, stats = build(tape, run)
    for line in spec.describe()[:8]:
        run.say(V.short(line, 400))
    store = C.gen_store(tape, clock, kinds=['memory', 'file'])
    try:
        rec = R.record_once(spec, run, store.open(), rseed=1)
        run.ev('spec', [V.short(l, 2000) for l in spec.describe()], R.describe_steps(spec2.body), stats)
        if not rec.saved or not R.recording_in_faithful_domain(rec):
            run.probe('recording_not_usable')
            return run
        check_keys(run, spec, rec)
        rep = R.replay_once(spec2, run, store.open(), rec.rec_id)
        check_replay(run, spec2, rep, 'same-process')
        run.nontrivial = bool(stats['respelt'] or stats['near'])
    finally:
        store.close()
    return run


# ------------------------------------------------------------------------------------------ cross-process
def child_main(argv):
    """./check child C06 <record|replay> <dir> <jobs.json>  ->  prints RESULT <json>"""
    phase, workdir, jobs_path = argv
    jobs = json.load(open(jobs_path))
    results = []
    for job in jobs:
        tape = Tape(job['seed'], prefix=job['prefix'], explore=job['explore'])
        tape.draw(4)  # mode
        run = Run(PROP)
        with seams.deterministic(tape) as clock:
            spec, spec2, stats = build(tape, run)
            d = os.path.join(workdir, str(job['n']))
            cas = FileBasedTapeCassette(d)
            res = {'n': job['n'], 'used': list(tape.used), 'stats': stats, 'probes': dict(run.probes)}
            if phase == 'record':
                rec = R.record_once(spec, run, cas, rseed=1)
                ok = rec.saved and R.recording_in_faithful_domain(rec)
                if ok:
                    check_keys(run, spec, rec)
                res.update(rec_id=rec.rec_id if ok else None, desc=[V.short(l, 2000) for l in spec.describe()])
            else:
                rep = R.replay_once(spec2, run, cas, job['rec_id'])
                check_replay(run, spec2, rep, 'cross-process')
                res.update(outcome=rep.outcome.kind)
            res['violations'] = [v.to_json() for v in run.violations]
            res['trace'] = run.trace[:30]
        results.append(res)
    print('RESULT ' + json.dumps(results))
    return 0


def spawn(phase, workdir, jobs, hashseed):
    path = os.path.join(workdir, '%s-jobs.json' % phase)
    with open(path, 'w') as f:
        json.dump(jobs, f)
    env = dict(os.environ, PYTHONHASHSEED=hashseed)
    out = subprocess.check_output([os.path.join(VERIF, 'check'), 'child', PROP, phase, workdir, path], env=env, timeout=900).decode()
    line = [l for l in out.splitlines() if l.startswith('RESULT ')]
    if not line:
        raise HarnessError('C06 child produced no result: %s' % out[-2000:])
    return json.loads(line[-1][7:])


def cross_process(jobs, hs_a, hs_b):
    """Record all jobs in one fresh interpreter (hash seed a), replay them in another (hash seed b)."""
    workdir = tempfile.mkdtemp(prefix='pbverif-c06-', dir=C.SCRATCH)
    try:
        recs = spawn('record', workdir, jobs, hs_a)
        by_n = dict((r['n'], r) for r in recs)
        jobs2 = [dict(j, rec_id=by_n[j['n']]['rec_id']) for j in jobs if by_n[j['n']].get('rec_id')]
        reps = spawn('replay', workdir, jobs2, hs_b) if jobs2 else []
        by_n2 = dict((r['n'], r) for r in reps)
        runs = []
        for j in jobs:
            a, b = by_n[j['n']], by_n2.get(j['n'])
            run = Run(PROP)
            run.config = {'hash_seeds': [hs_a, hs_b]}
            run.trace = ['recorder process PYTHONHASHSEED=%s, replayer process PYTHONHASHSEED=%s' % (hs_a, hs_b)] + a.get('desc', [])[:8] + (b['trace'] if b else [])
            for r in (a, b):
                if r is None:
                    continue
                for p, c in r['probes'].items():
                    run.probe(p, c)
                for v in r['violations']:
                    vv = Violation(v['property'], v['oracle'], v['signature'], v['message'])
                    run.violations.append(vv)
            run.probe('cross_process')
            run.nontrivial = b is not None and bool(a['stats']['respelt'] or a['stats']['near'])
            run.log = [('cross', a.get('desc'), a['stats'], b['outcome'] if b else None, sorted(v.signature for v in run.violations))]
            if b is not None and a['used'] != b['used'][:len(a['used'])] and b['used'] != a['used'][:len(b['used'])]:
                raise HarnessError('recorder and replayer processes generated different programs (tape mismatch)')
            runs.append((run, j, a['used']))
        return runs
    finally:
        shutil.rmtree(workdir, ignore_errors=True)


def cross_process_single(tape):
    hs_a = HASH_SEEDS[tape.draw(len(HASH_SEEDS))]
    hs_b = HASH_SEEDS[tape.draw(len(HASH_SEEDS))]
    # the children re-create this tape: they need its seed, its prefix and its mode
    prefix = list(tape.prefix) if tape.prefix else list(tape.used)
    if len(prefix) < 3:
        prefix = list(tape.used)
    job = {'n': 0, 'seed': tape.seed, 'prefix': prefix, 'explore': tape.explore}
    # children draw: mode, then build(); they do not draw the two hash-seed choices, so feed them a tape without them
    job['prefix'] = [prefix[0]] + prefix[3:] if len(prefix) >= 3 else [1]
    job['skip_hash_draws'] = True
    runs = cross_process([job], hs_a, hs_b)
    run = runs[0][0]
    # keep the parent's tape aligned with what the children consumed (for replay files)
    for v in runs[0][2][1:]:
        tape.used.append(v)
    return run


def run_index(i, seed, tier, emit):
    mod = sys.modules[__name__]
    from simkit.runner import safe_run_tape
    if i % 4 == 1:
        # a batch of programs across one pair of fresh interpreters
        n = 60 if tier == 'quick' else 150
        hs_a = HASH_SEEDS[(i // 4) % len(HASH_SEEDS)]
        hs_b = HASH_SEEDS[(i // 4 + 1 + (i // 32)) % len(HASH_SEEDS)]
        a_idx, b_idx = HASH_SEEDS.index(hs_a), HASH_SEEDS.index(hs_b)
        jobs = [{'n': k, 'seed': seed + k, 'prefix': [1], 'explore': True} for k in range(n)]
        for run, job, used in cross_process(jobs, hs_a, hs_b):
            t = Tape(job['seed'], prefix=[1, a_idx, b_idx] + used[1:])
            t.used = [1, a_idx, b_idx] + used[1:]
            emit(run, t)
        return
    for k in range(40):
        t = Tape(seed + k, prefix=[4 if k % 8 == 0 else (3 if k % 8 == 1 else 0)])
        emit(safe_run_tape(mod, t), t)
