"""C09 The recorder returns to idle; every run is independent of history (DESIGN.md section 4, C09)."""
import copy
import queue
import threading

from simkit import seams
from simkit import values as V
from simkit.core import Run, HarnessError

from playback.exceptions import TapeRecorderException
from playback.tape_recorder import TapeRecorder
from playback.tape_cassettes.in_memory.in_memory_tape_cassette import InMemoryTapeCassette

from engines import recplay as R
from engines import cassettes as C

PROP = 'C09'
T = TapeRecorder
KINDS = ['op_ok', 'op_raises', 'op_interrupt', 'op_interrupt_in_body', 'op_discarded', 'op_discard_in_body', 'op_sampled_out',
         'op_capture_failure', 'op_save_failure', 'op_forced', 'op_threaded', 'op_extractor_raises', 'op_forced_then_discarded',
         'op_disables_recording_midway', 'op_outputs_then_discarded', 'op_discard_abort_raises',
         'op_discarded_then_forced', 'op_skipped_class_forces', 'op_disabled_then_forced', 'force_while_idle', 'op_unusable_sampling_rate',
         'replay_ok', 'replay_missing_id', 'replay_missing_key', 'replay_fn_raises', 'replay_interrupted', 'replay_raises_in_op',
         'replay_recording_without_duration']

META = {
    'engine': 'recplay',
    'level': 'exploration',
    'level_text': ('Seeded histories of 2-8 runs on ONE recorder (successful, raising, interrupted, discarded, sampled-out, forced, '
                   'capture failure, save failure, threaded operations; replays that succeed, name a missing id, miss a key, whose '
                   'playback function raises or is interrupted), distributed over three long-lived caller threads, followed by a probe '
                   'operation or replay whose result is compared with the same probe on a fresh recorder; idle-state observers are '
                   'read after every run and a probe interception outside any operation must be a pure pass-through on every thread. Also: forced sampling requested while idle / after a discard / in a skipped class / after a switch-off, a storage whose abort fails, and unusable sampling rates. Fire-and-forget worker threads that are still inside an interception when the operation (or the replay) ends, pre-empted at every line point in turn.'),
    'level_note': 'Trusted: strict hand-off between caller threads (one runs at a time), spy cassette, probe comparison code in this file.',
    'rule': ('evaluation = one history + probe; non-trivial = the history contained at least one abnormal run (anything but op_ok / '
             'replay_ok); distinct = distinct event-log digest (kinds, threads, outcomes, probe result).'),
    'assumptions': ['runs on one recorder are sequential (no concurrent operations)', 'probe classes use sampling rate 1 or 0 so the RNG position does not matter'],
    'components_real': ['TapeRecorder (recording scope, discard, play, interception context)', 'in-memory / file / S3 cassettes'],
    'components_stub': ['S3 bucket', 'uuid / clock', 'service and environment', 'caller threads handed the baton one at a time'],
    'budgets': {'quick': {'seconds': 30}, 'thorough': {'seconds': 480}},
    'required_probes': {'thorough': ['kind_' + k for k in KINDS] + ['probe_op', 'probe_replay', 'ran_on_aux_thread']},
}


class Caller(object):
    """A long-lived caller thread (like a pool thread of a web service); strictly one caller runs at a time."""

    def __init__(self, name):
        self.name = name
        self.q = queue.Queue()
        self.done = queue.Queue()
        self.thread = threading.Thread(target=self._loop, name=name)
        self.thread.daemon = True
        self.thread.start()

    def _loop(self):
        while True:
            fn = self.q.get()
            if fn is None:
                return
            try:
                self.done.put(('ok', fn()))
            except BaseException as ex:  # noqa
                self.done.put(('exc', ex))

    def call(self, fn):
        self.q.put(fn)
        try:
            kind, val = self.done.get(timeout=60)
        except queue.Empty:
            raise HarnessError('caller thread hung')
        if kind == 'exc':
            raise val
        return val

    def stop(self):
        self.q.put(None)
        self.thread.join(5)


class Main(object):
    name = 'main'

    def call(self, fn):
        return fn()

    def stop(self):
        pass


def run_tape(tape):
    with seams.deterministic(tape) as clock:
        mode = tape.draw(10)
        if mode == 9:
            return straggler_history(tape, clock)
        if mode == 8:
            return straggler_in_replay(tape, clock)
        return _run(tape, clock)


def straggler_in_replay(tape, clock):
    """History: a replay whose operation leaves a fire-and-forget worker behind that is still inside an output interception
    when play() returns (pre-empted at a tape-chosen line point, continuing afterwards).  The next replay on the recorder
    captures exactly what a fresh recorder captures."""
    import os
    from simkit import REPO
    from simkit.sim import Sim, SimDeadlock
    run = Run(PROP)
    run.probe('replay_history_with_a_straggler_thread')
    k = tape.draw(200)
    cas = InMemoryTapeCassette()

    def make(name, body):
        sp = R.ServiceSpec()
        sp.op.name = name
        sp.outputs = [R.OutputSpec(0)]
        sp.body = body
        return sp
    late = [['out', 0, ((1,), {}), ('value', 2), None]] * (1 + tape.draw(2))
    first = make('OpA', [['spawn', [late], True]])
    probe = make('OpB', [['out', 0, ((5,), {}), ('value', 6), None], ['out', 0, ((7,), {}), ('value', 8), None]])
    # recordings made beforehand, with the worker joined (so that its outputs are part of the first recording)
    first_joined = make('OpA', [['spawn', [late], False]])
    ra = R.record_once(first_joined, run, cas, rseed=1)
    rb = R.record_once(probe, run, cas, rseed=1)
    if not (ra.saved and rb.saved):
        run.violate('probe_equals_fresh_recorder', 'setup-not-saved', 'setup recordings were not saved')
        return run
    sim = Sim(tape, run, preempt_p=0.0, prim_p=0.0, placements={k: 0}, eager_start=True,
              target_files=[os.path.join(REPO, 'playback', 'tape_recorder.py')], max_steps=60000)
    recorder = TapeRecorder(cas)
    res = {}

    def main():
        a = R.replay_once(first, run, cas, ra.rec_id, recorder=recorder, thread_factory=R.sim_thread_factory(sim), join_threads=False)
        for name, th, tobs, strag in a.svc.threads:
            th.join()
        res['idle'] = (recorder.in_recording_mode, recorder.in_playback_mode)
        res['probe'] = R.replay_once(probe, run, cas, rb.rec_id, recorder=recorder)
    try:
        sim.run_main(main)
    except SimDeadlock as ex:
        run.violate('idle_after_run', 'deadlock', str(ex))
        return run
    run.nontrivial = sim.switches > 1
    run.check(res.get('idle') == (False, False), 'idle_after_run', 'not-idle-after-straggler', lambda: 'recorder state after the straggler finished: %s' % (res.get('idle'),))
    fresh = R.replay_once(probe, run, cas, rb.rec_id, recorder=TapeRecorder(cas))

    def captured(rep):
        if rep.outcome.kind != 'return':
            return ('play raised', type(rep.outcome.exc).__name__)
        return sorted((o.key, V.canon(o.value)) for o in rep.playback.playback_outputs)
    got, exp = captured(res['probe']), captured(fresh)
    run.say('replay straggler pre-empted at line point %d; next replay captured %s' % (k, [x[0] for x in got] if isinstance(got, list) else got))
    run.ev('replay_straggler', k, [x[0] for x in got] if isinstance(got, list) else got, sim.switches)
    run.check(got == exp, 'probe_equals_fresh_recorder', 'replay-content-after-straggler',
              lambda: 'after a replay that left a worker thread inside an output interception, the next replay captured %s; a fresh recorder captures %s' % (
                  [x[0] for x in got] if isinstance(got, list) else got, [x[0] for x in exp] if isinstance(exp, list) else exp))
    return run


def straggler_history(tape, clock):
    """History: an operation left a fire-and-forget worker thread behind that is still inside an interception when the
    operation ends (it is pre-empted at a tape-chosen line point and continues only after the operation was finalised).
    The next operation on the recorder is numbered, recorded and replayed as on a fresh recorder."""
    import os
    from simkit import REPO
    from simkit.sim import Sim, SimDeadlock
    run = Run(PROP)
    run.probe('history_with_a_straggler_thread')
    k = tape.draw(160)
    kind = tape.choice(['out', 'out', 'in'])
    sim = Sim(tape, run, preempt_p=0.0, prim_p=0.0, placements={k: 0}, eager_start=True,
              target_files=[os.path.join(REPO, 'playback', 'tape_recorder.py')], max_steps=60000)
    spy = R.SpyCassette(InMemoryTapeCassette(), run)
    recorder = TapeRecorder(spy)

    def make(name, body):
        sp = R.ServiceSpec()
        sp.op.name = name
        sp.outputs = [R.OutputSpec(0)]
        sp.outputs[0].handler = bool(handler)
        i = R.InputSpec(0)
        i.pool = [((1,), {}), ((2,), {})]
        for (a, kw) in i.pool:
            for dep in ('d0', 'd1'):
                i.outcomes[(R.resolved_alias(i, dep), R.model_captured(i, a, kw))] = ('value', 'in-%s' % a[0])
        sp.inputs = [i]
        sp.body = body
        return sp
    handler = tape.draw(2)
    late = [['out', 0, ((1,), {}), ('value', 2), None]] if kind == 'out' else [['in', 0, 0, 0, None]]
    first = make('OpA', [['spawn', [late * (1 + tape.draw(2))], True]])
    probe = make('OpB', [['out', 0, ((5,), {}), ('value', 6), None], ['in', 0, 1, 0, None], ['out', 0, ((7,), {}), ('value', 8), None]])
    res = {}

    def main():
        a = R.record_once(first, run, spy, recorder=recorder, thread_factory=R.sim_thread_factory(sim))
        for name, th, tobs, strag in a.svc.threads:
            th.join()
        res['idle'] = (recorder.in_recording_mode, recorder.in_playback_mode, recorder.current_recording_id, recorder.is_recording_sample_forced)
        b = R.record_once(probe, run, spy, recorder=recorder)
        res['probe'] = b
    try:
        sim.run_main(main)
    except SimDeadlock as ex:
        run.violate('idle_after_run', 'deadlock', str(ex))
        return run
    run.nontrivial = sim.switches > 1
    run.check(res.get('idle') == (False, False, None, False), 'idle_after_run', 'not-idle-after-straggler', lambda: 'recorder state after the straggler finished: %s' % (res.get('idle'),))
    b = res.get('probe')
    fresh_spy = R.SpyCassette(InMemoryTapeCassette(), run)
    f = R.record_once(probe, run, fresh_spy, recorder=TapeRecorder(fresh_spy))

    def content(rec):
        r = rec.spy.created.get(rec.rec_id)
        return sorted((kk, V.canon(r.get_data(kk))) for kk in r.get_all_keys()) if r is not None else None
    got, exp = content(b), content(f)
    run.say('straggler %s pre-empted at line point %d; probe recorded keys %s' % (kind, k, [x[0] for x in (got or [])]))
    run.ev('straggler', kind, k, handler, [x[0] for x in (got or [])], b.saved, sim.switches)
    run.check(b.saved == f.saved and got == exp, 'probe_equals_fresh_recorder', 'op-content-after-straggler',
              lambda: 'after an operation that left a worker thread inside an interception, the next operation recorded %s; a fresh recorder records %s' % (
                  [x[0] for x in (got or [])], [x[0] for x in (exp or [])]))
    return run


def small_spec(tape, run, steps=5):
    spec = R.gen_service(tape, run, max_steps=steps, max_inputs=3, max_outputs=2, threads=False)
    R.fill_outcomes(tape, run, spec)
    return spec


def first_io(spec, kind=None):
    for st in R.flat_steps(spec.body):
        if st[0] in ('in', 'out') and (kind is None or st[0] == kind):
            return st
    return None


def ensure_io(spec):
    if first_io(spec) is None:
        spec.body.append(['in', 0, 0, 0, None])


def idle_checks(run, recorder, label):
    run.check(not recorder.in_recording_mode, 'idle_after_run', 'in-recording-mode', lambda: 'recorder still in recording mode after %s' % label)
    run.check(not recorder.in_playback_mode, 'idle_after_run', 'in-playback-mode', lambda: 'recorder still in playback mode after %s' % label)
    run.check(recorder.current_recording_id is None, 'idle_after_run', 'current-recording-id', lambda: 'current_recording_id is %r after %s' % (recorder.current_recording_id, label))
    run.check(not recorder.is_recording_sample_forced, 'idle_after_run', 'sticky-force', lambda: 'forced sampling still set after %s' % label)


def passthrough_probe(run, recorder, spy, callers, label):
    """Outside any operation an intercepted call is a pure pass-through on every thread that ever ran."""
    spec = R.ServiceSpec()
    i = R.InputSpec(0)
    i.pool = [((1,), {})]
    i.outcomes[('in0', R.model_captured(i, (1,), {}))] = ('value', ('probe-value',))
    o = R.OutputSpec(0)
    spec.inputs, spec.outputs = [i], [o]
    env = R.Env(spec, run, recorder)
    svc = R.Service(spec, env, recorder)
    dep = svc.Dep('d0')
    for c in callers:
        before = len(spy.calls)
        nbefore = len(env.journal)

        def go():
            env.tls.call = {'result': ('value', 'out-result')}
            a = R.call_input(dep, i, (1,), {})
            env.tls.call = {'result': ('value', 'out-result')}
            b = R.call_output(dep, o, (2,), {})
            return a, b
        try:
            a, b = c.call(go)
        except Exception as ex:
            run.violate('passthrough_outside_operation', 'raised:%s' % type(ex).__name__, 'intercepted call outside any operation raised %r on thread %s after %s' % (ex, c.name, label))
            continue
        ok = a == ('probe-value',) and b == 'out-result' and len(env.journal) == nbefore + 2 and len(spy.calls) == before
        run.check(ok, 'passthrough_outside_operation', 'not-passthrough',
                  lambda: 'interception outside an operation was not a pass-through on thread %s after %s: got %r %r, %d bodies, cassette calls %s' % (
                      c.name, label, a, b, len(env.journal) - nbefore, spy.calls[before:]))


def rec_summary(rec):
    """What a recording run produced, minus ids and timestamps."""
    r = rec.spy.created.get(rec.rec_id) if rec.rec_id else None
    calls = [c[0] for c in rec.spy.calls if c[1] == rec.rec_id and c[0] != 'get'] if rec.rec_id else []
    data = meta = None
    if r is not None:
        inner = getattr(r, 'wrapped_recording', r)
        data = sorted((k, V.canon(v)) for k, v in inner.recording_data.items())
        meta = sorted((k, V.canon(v)) for k, v in inner.recording_metadata.items() if k not in (T.RECORDED_AT, T.DURATION))
    return (rec.outcome.canon(), calls, data, meta)


def rep_summary(rep):
    if rep.outcome.kind != 'return':
        return (rep.outcome.kind, type(rep.outcome.exc).__name__)
    pb = rep.playback
    # as lists (one entry per captured output, duplicates and leftovers of earlier runs included), in key order
    return ('return', sorted((o.key, V.canon(o.value)) for o in pb.playback_outputs), sorted((o.key, V.canon(o.value)) for o in pb.recorded_outputs),
            rep.op_outcome.canon() if rep.op_outcome else None, len(rep.env.journal))


def _run(tape, clock):
    run = Run(PROP)
    V.set_flavour(tape)
    store = C.gen_store(tape, clock)
    callers = [Main(), Caller('aux1'), Caller('aux2')]
    try:
        return scenario(run, tape, clock, store, callers)
    finally:
        for c in callers:
            c.stop()
        store.close()


def scenario(run, tape, clock, store, callers):
    cas = store.open()
    spy = R.SpyCassette(cas, run)
    recorder = TapeRecorder(spy)
    recorder.enable_recording()
    # base recording made by another recorder, to be replayed by history items
    base_spec = small_spec(tape, run)
    ensure_io(base_spec)
    base = R.record_once(base_spec, run, R.SpyCassette(cas, run), rseed=3)
    if not base.saved or not R.recording_in_faithful_domain(base):
        run.probe('base_not_usable')
        return run
    n = 2 + tape.draw(7)
    kinds = []
    run.say('cassette %s; base recording %s' % (store.describe(), base.rec_id))
    for k in range(n):
        kind = KINDS[tape.draw(len(KINDS))]
        caller = callers[tape.draw(3)] if tape.draw(2) else callers[0]
        kinds.append((kind, caller.name))
        run.probe('kind_' + kind)
        if caller.name != 'main':
            run.probe('ran_on_aux_thread')
        label = '%s on %s (#%d)' % (kind, caller.name, k)
        try:
            out = caller.call(lambda: history_item(run, tape, kind, recorder, spy, store, base_spec, base))
        except SkipRun:
            return run
        run.say('%s -> %s' % (label, out))
        run.ev('item', k, kind, caller.name, out)
        idle_checks(run, recorder, label)
        spy.save_raises = False
        spy.abort_raises = False
    if any(k[0] not in ('op_ok', 'replay_ok') for k in kinds):
        run.nontrivial = True
    passthrough_probe(run, recorder, spy, callers, 'history %s' % (kinds,))
    # ---- the probe: same run on the used recorder and on a fresh one
    probe_kind = tape.choice(['op', 'op_rate0', 'replay'])
    pcaller = callers[tape.draw(3)]
    if probe_kind in ('op', 'op_rate0'):
        run.probe('probe_op')
        pspec = small_spec(tape, run, steps=8)
        if probe_kind == 'op_rate0':
            pspec.op.params = {'sampling_rate': 0.0}
        used = pcaller.call(lambda: R.record_once(pspec, run, spy, recorder=recorder))
        with C.Store(store.kind, key_prefix=store.key_prefix, clock=clock) as fresh_store:
            fresh = R.record_once(copy.deepcopy(pspec) if False else pspec, run, fresh_store.open(), rseed=0)
            a, b = rec_summary(used), rec_summary(fresh)
        C.set_world(store.world)
    else:
        run.probe('probe_replay')
        used = pcaller.call(lambda: R.replay_once(base_spec, run, spy, base.rec_id, recorder=recorder))
        fresh = R.replay_once(base_spec, run, store.open(read_only=True), base.rec_id)
        a, b = rep_summary(used), rep_summary(fresh)
    run.say('probe %s on %s: %s' % (probe_kind, pcaller.name, V.short(a, 300)))
    # the log must not depend on the hash seed: raw input keys may spell a set of strings in hash order (that is
    # C06's subject), so only a key-free projection is logged
    run.ev('probe', probe_kind, V.canon(project(a)))
    if a != b:
        what = 'outcome' if a[0] != b[0] else ('finalisation' if probe_kind != 'replay' and a[1] != b[1] else 'content')
        run.violate('probe_equals_fresh_recorder', '%s-%s' % (probe_kind, what),
                    'after history %s the probe %s differs from a fresh recorder:\n used : %s\n fresh: %s' % (kinds, probe_kind, V.short(a, 700), V.short(b, 700)))
    idle_checks(run, recorder, 'probe')
    return run


def project(x):
    if isinstance(x, tuple) and len(x) == 2 and isinstance(x[0], str) and x[0].startswith(('input:', 'output:')):
        return ('key', x[0].split(' args=')[0], project(x[1]))
    if isinstance(x, (list, tuple)):
        return [project(i) for i in x]
    return x


class SkipRun(Exception):
    pass


def history_item(run, tape, kind, recorder, spy, store, base_spec, base):
    if kind == 'force_while_idle':
        # forced sampling is asked for while nothing is being recorded (between operations, from a worker that outlived its
        # operation): there is no current recording to keep, the request must not stick to the next one
        recorder.force_sample_recording()
        return 'force requested while idle'
    if kind.startswith('op_'):
        spec = small_spec(tape, run)
        ensure_io(spec)
        st = first_io(spec)
        if kind == 'op_raises':
            spec.body.insert(tape.draw(len(spec.body) + 1), ['raise', R.D.ErrA])
        elif kind == 'op_interrupt':
            spec.body.insert(tape.draw(len(spec.body) + 1), ['interrupt'])
        elif kind == 'op_interrupt_in_body':
            R.place_fault(spec, st, 'interrupt_in_body', run)
        elif kind == 'op_discarded':
            spec.body.insert(tape.draw(len(spec.body) + 1), ['discard'])
        elif kind == 'op_discard_in_body':
            R.place_fault(spec, st, 'discard_in_body', run)
        elif kind == 'op_sampled_out':
            spec.op.params = {'sampling_rate': 0.0}
        elif kind == 'op_forced':
            spec.op.params = {'sampling_rate': 0.0}
            spec.body.insert(tape.draw(len(spec.body) + 1), ['force'])
        elif kind == 'op_forced_then_discarded':
            spec.op.params = {'sampling_rate': 0.0}
            spec.body.insert(0, ['force'])
            spec.body.insert(1 + tape.draw(len(spec.body)), ['discard'])
        elif kind == 'op_outputs_then_discarded':
            if spec.outputs:
                spec.body.insert(0, ['out', 0, ((1,), {}), ('value', 2), None])
                spec.body.insert(1, ['out', 0, ((2,), {}), ('value', 3), None])
            spec.body.append(['discard'])
        elif kind == 'op_discard_abort_raises':
            spec.op.params = {'sampling_rate': 0.0}
            spec.body.insert(0, ['force'])
            if spec.outputs:
                spec.body.insert(1, ['out', 0, ((1,), {}), ('value', 2), None])
            spec.body.append(['discard'])
            spy.abort_raises = True
        elif kind == 'op_disables_recording_midway':
            spec.body.insert(tape.draw(len(spec.body) + 1), ['disable'])
        elif kind == 'op_discarded_then_forced':
            pos = tape.draw(len(spec.body) + 1)
            spec.body.insert(pos, ['discard'])
            spec.body.insert(pos + 1 + tape.draw(len(spec.body) - pos), ['force'])
        elif kind == 'op_skipped_class_forces':
            spec.op.params = {'skipped': True}
            spec.body.insert(tape.draw(len(spec.body) + 1), ['force'])
        elif kind == 'op_disabled_then_forced':
            pos = tape.draw(len(spec.body) + 1)
            spec.body.insert(pos, ['disable'])
            spec.body.insert(pos + 1 + tape.draw(len(spec.body) - pos), ['force'])
        elif kind == 'op_unusable_sampling_rate':
            # a configuration mistake: whatever it does to this operation, the recorder is idle afterwards
            spec.op.params = {'sampling_rate': tape.choice([None, '0.25'])}
        elif kind == 'op_capture_failure':
            R.place_fault(spec, st, tape.choice(['handler_raises', 'key_unbuildable']), run)
        elif kind == 'op_save_failure':
            spy.save_raises = True
        elif kind == 'op_extractor_raises':
            spec.op.extractor = 'raises'
        elif kind == 'op_threaded':
            bodies = [[['in', spec.inputs[0].idx, 0, 0, None]], [['out', 0, ((1,), {}), ('value', 2), None]] if spec.outputs else [['rec', 'd', 1]]]
            spec.body.append(['spawn', bodies, False])
        rec = R.record_once(spec, run, spy, recorder=recorder, thread_factory=real_thread_factory)
        recorder.enable_recording()      # (the service switches recording back on after an operation switched it off)
        return 'operation %s, cassette %s' % (rec.outcome.canon()[0], [c[0] for c in spy.calls if c[1] == rec.rec_id])
    # replays
    spec = copy.copy(base_spec)
    spec.body = copy.deepcopy(base_spec.body)
    rec_id = base.rec_id
    fn_raises = None
    if kind == 'replay_missing_id':
        rec_id = base.rec_id[:-4] + 'ffff'
    elif kind == 'replay_missing_key':
        i = spec.inputs[0]
        spec.inputs = list(spec.inputs)
        extra = copy.copy(i)
        extra.alias = 'never_recorded'
        extra.idx = len(spec.inputs)
        extra.nested = None
        extra.kind = 'instance' if i.kind == 'property' else i.kind
        spec.inputs.append(extra)
        spec.body.insert(tape.draw(len(spec.body) + 1), ['in', extra.idx, 0, 0, None])
    elif kind == 'replay_interrupted':
        spec.body.insert(tape.draw(len(spec.body) + 1), ['interrupt'])
    elif kind == 'replay_raises_in_op':
        spec.body.insert(tape.draw(len(spec.body) + 1), ['raise', R.D.ErrB])
    elif kind == 'replay_recording_without_duration':
        # a recording that was stored straight through the cassette (or by an older version): no duration metadata
        raw = spy.inner.create_new_recording(base_spec.op.name)
        raw.set_data('k', 1)
        raw.add_metadata({'note': 'no framework metadata'})
        spy.inner.save_recording(raw)
        rec_id = raw.id
    elif kind == 'replay_fn_raises':
        fn_raises = tape.choice(['before', 'after'])
    if fn_raises:
        svc_holder = {}

        def fn(recording):
            if fn_raises == 'before':
                raise RuntimeError('playback function fails')
            env = R.Env(spec, run, recorder)
            R.Service(spec, env, recorder).invoke()
            raise RuntimeError('playback function fails')
        out = R.call_outcome(lambda: recorder.play(rec_id, fn))
        return 'play %s' % (out.canon(),)
    rep = R.replay_once(spec, run, spy, rec_id, recorder=recorder)
    return 'play %s' % (rep.outcome.canon()[0] if rep.outcome.kind == 'return' else rep.outcome.canon(),)


class RealThread(object):
    def __init__(self, target, name):
        self.t = threading.Thread(target=target, name=name)
        self.t.daemon = True

    def start(self):
        # strict hand-off: the spawned thread runs to completion before the spawner continues
        self.t.start()
        self.t.join(30)

    def join(self, timeout=None):
        self.t.join(30)


def real_thread_factory(target, name):
    return RealThread(target, name)


def run_index(i, seed, tier, emit):
    import sys
    from simkit.runner import safe_run_tape
    from simkit.tape import Tape
    mod = sys.modules[__name__]
    if i % 400 == 399:
        # both straggler histories with their single pre-emption placed at every line point in turn (a stride in the quick tier)
        for mode in (9, 8):
            for k in range(0, 200, 3 if tier == 'quick' else 1):
                t = Tape(seed, prefix=[mode, k])
                emit(safe_run_tape(mod, t), t)
        return
    t = Tape(seed)
    emit(safe_run_tape(mod, t), t)
