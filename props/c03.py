"""C03 Captured outputs are exactly what the executing code sent (DESIGN.md section 4, C03)."""
import copy

from simkit import seams
from simkit import values as V
from simkit.core import Run

from playback.tape_recorder import TapeRecorder

from engines import recplay as R
from engines import cassettes as C

PROP = 'C03'
OPKEY = 'output: %s #1.output' % TapeRecorder.OPERATION_OUTPUT_ALIAS

META = {
    'engine': 'recplay',
    'level': 'exploration',
    'level_text': ('Seeded pairs (recorded program P, replayed program P\') where P\' is P or P after 1-3 behavioural edits '
                   '(changed output argument, dropped / added / swapped output call, raise instead of return); the '
                   'interpreter journals what the code sent before entering the decorated function, and the Playback must '
                   'equal those journals entry for entry.  Sampled programs and edits: evidence, not proof. Also: two worker threads sending through one alias under the line-level scheduler (recording and replay), replaying recorders with a failed replay in their history, unserializable exceptions raised earlier in the process, and the recording as filled by the recorder (live objects, no serializer) compared with what was sent. Outputs whose result is optional in replay, and recording switched off midway (no recording may then claim the run). Several functions registered under one output alias, called in any order.'),
    'level_note': 'Trusted: interpreter journal of sent outputs; faithful-domain guard. No schedule or fault dimension: the simulator contributes restart over three cassette types.',
    'rule': ('evaluation = one pair (P, P\') recorded and replayed over a real cassette; non-trivial = P\' made at least one '
             'output call and the replay completed; distinct = distinct event-log digest (programs, edits, both journals).'),
    'assumptions': ['values in the faithful domain; exceptions compared by type', 'added output calls use fail_on_no_recorded_result=False'],
    'components_real': ['TapeRecorder (output decorators, play, recorded-output extraction)', 'all three cassettes'],
    'components_stub': ['S3 bucket', 'uuid, clock', 'service and environment'],
    'budgets': {'quick': {'seconds': 25}, 'thorough': {'seconds': 420}},
    'required_probes': {'thorough': ['ordinal_ge_10', 'edit_change_arg', 'edit_drop', 'edit_add', 'edit_swap', 'edit_raise',
                                     'handler_output', 'static_output', 'operation_raised', 'two_threads_same_alias', 'unserializable_exception_raised_earlier']},
}


def run_tape(tape):
    with seams.deterministic(tape) as clock:
        return _run(tape, clock)


def expected_outputs(svc, outcome):
    """What the Playback must contain for the journal of sent outputs."""
    exp = {}
    counts = {}
    for alias, args, kwargs in svc.sent:
        counts[alias] = counts.get(alias, 0) + 1
        ospec = next(o for o in svc.spec.outputs if o.alias == alias)
        key = 'output: %s #%d.output' % (alias, counts[alias])
        if ospec.handler:
            exp[key] = V.canon({'hargs': list(args), 'hkwargs': kwargs})
        else:
            exp[key] = V.canon({'args': list(args), 'kwargs': kwargs})
    if outcome.kind == 'return':
        exp[OPKEY] = V.canon({'args': [outcome.value], 'kwargs': {}})
    elif outcome.kind == 'raise':
        exp[OPKEY] = V.canon({'args': [outcome.exc], 'kwargs': {}})
    return exp


def apply_edit(tape, run, spec, overrides):
    outs = [(lst, n) for lst, n in all_positions(spec.body) if lst[n][0] == 'out']
    kind = tape.choice(['change_arg', 'drop', 'add', 'swap', 'raise'])
    if kind in ('change_arg', 'drop', 'swap') and not outs:
        kind = 'add'
    if kind == 'add' and not spec.outputs:
        kind = 'raise'
    run.probe('edit_' + kind)
    if kind == 'change_arg':
        lst, n = tape.choice(outs)
        args, kwargs = lst[n][2]
        lst[n] = list(lst[n])
        if args and tape.draw(2):
            i = tape.draw(len(args))
            lst[n][2] = (args[:i] + (('CHANGED', V.gen_faithful(tape, run)),) + args[i + 1:], kwargs)
        else:
            lst[n][2] = (args, dict(kwargs, kw=('CHANGED', tape.draw(5))))
    elif kind == 'drop':
        lst, n = tape.choice(outs)
        del lst[n]
    elif kind == 'swap':
        lst, n = tape.choice(outs)
        lst2, m = tape.choice(outs)
        if lst is lst2:
            lst[n], lst[m] = lst[m], lst[n]
        else:
            del lst[n]
    elif kind == 'add':
        o = tape.choice(spec.outputs)
        overrides[o.alias] = {'fail_on_missing': False, 'default_result': ('default', o.alias)}
        pos = tape.draw(len(spec.body) + 1)
        spec.body.insert(pos, ['out', o.idx, ((V.gen_faithful(tape, run),), {}), ('value', None), None])
    else:
        spec.body.insert(tape.draw(len(spec.body) + 1), ['raise', tape.choice(R.D.EXC_CLASSES)])
    return kind


def all_positions(steps):
    for n, st in enumerate(steps):
        yield steps, n


class BadState(object):
    def __getstate__(self):
        raise RuntimeError('cannot serialize')


def poison(run):
    """History step: some other operation in this process raised exceptions (of the classes used here) that could not
    be serialized - e.g. an error object holding a live connection.  Later, serializable, exceptions of the same classes
    must still be captured as exceptions."""
    from playback.tape_cassettes.in_memory.in_memory_tape_cassette import InMemoryTapeCassette
    rec = TapeRecorder(InMemoryTapeCassette())
    rec.enable_recording()
    for cls in R.D.EXC_CLASSES:
        class Op(object):
            @rec.operation()
            def execute(self):
                e = cls()
                e.connection = BadState()
                raise e
        try:
            Op().execute()
        except Exception:
            pass
    run.probe('unserializable_exception_raised_earlier')


def threaded_same_alias(tape, clock):
    """Two worker threads of the operation send through the SAME output alias (with a data handler) at the same time,
    under the seeded line-level scheduler: still one entry per call, ordinals 1..n each once, values = what was sent."""
    import os
    from simkit import REPO
    from simkit.sim import Sim, SimDeadlock
    run = Run(PROP)
    run.probe('two_threads_same_alias')
    spec = R.ServiceSpec()
    o = R.OutputSpec(0, alias=tape.choice(['out0', 'send results 0']))
    o.handler = bool(tape.draw(2))
    spec.outputs = [o]
    n1, n2 = 1 + tape.draw(3), 1 + tape.draw(3)
    bodies = [[['out', 0, (('t%d-%d' % (t, k),), {}), ('value', 'result-t%d-%d' % (t, k)), None] for k in range(n)] for t, n in ((0, n1), (1, n2))]
    spec.body = [['spawn', bodies, False]]
    sim = Sim(tape, run, preempt_p=tape.choice([0.1, 0.3, 0.6]), target_files=[os.path.join(REPO, 'playback', 'tape_recorder.py')], max_steps=60000)
    store = C.gen_store(tape, clock, kinds=['memory', 'file'])
    try:
        res = {}

        def main():
            res['rec'] = R.record_once(spec, run, store.open(), rseed=1, thread_factory=R.sim_thread_factory(sim), sent=True)
        try:
            sim.run_main(main)
        except SimDeadlock as ex:
            run.violate('one_entry_per_call', 'deadlock', str(ex))
            return run
        rec = res['rec']
        run.nontrivial = sim.switches > 2
        if not rec.saved:
            run.violate('recording_saved', 'not-saved', 'recording not saved')
            return run
        r = store.open(read_only=True).get_recording(rec.rec_id)
        outs = sorted(k for k in r.get_all_keys() if k.startswith('output: %s #' % o.alias) and k.endswith('.output'))
        exp_keys = sorted('output: %s #%d.output' % (o.alias, n) for n in range(1, n1 + n2 + 1))
        sent = sorted(V.canon(a) for (alias, a, kw) in rec.svc.sent)
        run.say('%d + %d calls of %s from two threads: recorded keys %s' % (n1, n2, o.alias, [k.split('#')[1] for k in outs]))
        run.ev('threaded', n1, n2, outs)
        if outs != exp_keys:
            run.violate('one_entry_per_call', 'concurrent-calls-share-an-ordinal', '%d calls of one alias from two threads were recorded under keys %s' % (n1 + n2, [k.split('#')[1] for k in outs]))
            return run
        got = sorted(V.canon(tuple((r.get_data(k)['hargs'] if o.handler else r.get_data(k)['args']))) for k in outs)
        run.check(got == sent, 'recorded_outputs_equal_sent', 'concurrent-values-differ', lambda: 'recorded values %s, sent %s' % (got[:4], sent[:4]))
        # the same program replayed, again with both threads sending at the same time
        sim2 = Sim(tape, run, preempt_p=tape.choice([0.1, 0.3, 0.6]), target_files=[os.path.join(REPO, 'playback', 'tape_recorder.py')], max_steps=60000)
        res2 = {}

        def main2():
            res2['rep'] = R.replay_once(spec, run, store.open(read_only=True), rec.rec_id, thread_factory=R.sim_thread_factory(sim2), sent=True)
        try:
            sim2.run_main(main2)
        except SimDeadlock as ex:
            run.violate('one_entry_per_call', 'deadlock', str(ex))
            return run
        rep = res2['rep']
        if rep.outcome.kind != 'return':
            run.violate('replay_completes', 'play-raised:%s' % type(rep.outcome.exc).__name__, 'concurrent replay raised %r' % (rep.outcome.exc,))
            return run
        pkeys = sorted(x.key for x in rep.playback.playback_outputs if x.key.startswith('output: %s #' % o.alias))
        if pkeys != exp_keys:
            run.violate('one_entry_per_call', 'concurrent-replayed-calls-share-an-ordinal', 'replay: %d calls of one alias from two threads were captured under keys %s' % (n1 + n2, [k.split('#')[1] for k in pkeys]))
            return run
        handed = sorted(x[3] for name, th, tobs, strag in rep.svc.threads for x in tobs if x[0] == 'out' and x[2] == 'value')
        recorded_results = sorted('result-t%d-%d' % (t, k) for t, n in ((0, n1), (1, n2)) for k in range(n))
        run.check(handed == recorded_results, 'one_entry_per_call', 'concurrent-replayed-results-differ',
                  lambda: 'replay handed out results %s, recorded were %s' % (handed, recorded_results))
    finally:
        store.close()
    return run


def shared_alias(tape, clock):
    """Several functions are registered under ONE output alias (a subclass override re-registered under the base method's
    alias, two transports of one logical sink): the calls of the operation are numbered per alias, one entry per call, in
    call order, whichever function was called; the replay reproduces them and differs exactly at an edited call."""
    run = Run(PROP)
    run.probe('several_functions_under_one_output_alias')
    run.nontrivial = True
    n_funcs = 2 + tape.draw(2)
    calls = [(tape.draw(n_funcs), ('v', i, tape.draw(4))) for i in range(1 + tape.draw(8))]
    edit_at = tape.draw(len(calls) + 1) - 1      # -1: the replayed code is unchanged
    store = C.gen_store(tape, clock)
    run.say('%d functions under alias "sink", calls %s, replay edits call %s; cassette %s' % (n_funcs, calls, edit_at, store.describe()))
    run.ev('case-shared-alias', n_funcs, calls, edit_at, store.describe())
    try:
        cas = store.open()
        recorder = TapeRecorder(cas)
        recorder.enable_recording()
        state = {'edit': None, 'sent': []}

        def make(k):
            @recorder.static_intercept_output('sink')
            def send(payload):
                state['sent'].append((k, payload))
                return None
            return send
        funcs = [make(k) for k in range(n_funcs)]

        class SharedSink(object):
            @recorder.operation()
            def execute(self):
                for i, (k, payload) in enumerate(calls):
                    funcs[k](('edited', i) if state['edit'] == i else payload)
                return len(calls)
        R.D.register('SharedSink', SharedSink)
        SharedSink().execute()
        rid = cas.get_last_recording_id() if hasattr(cas, 'get_last_recording_id') else None
        if rid is None:
            rid = list(cas.iter_recording_ids('SharedSink'))[-1]
        run.check(len(state['sent']) == len(calls), 'recorded_outputs_equal_sent', 'shared-alias:bodies-not-run-once',
                  lambda: 'bodies ran %d times for %d calls' % (len(state['sent']), len(calls)))
        want = dict(('output: sink #%d.output' % (i + 1), V.srepr({'args': [p], 'kwargs': {}})) for i, (k, p) in enumerate(calls))
        for rnd in range(2):
            state['edit'] = edit_at if rnd == 1 and edit_at >= 0 else None
            pb = recorder.play(rid, lambda r_: SharedSink().execute())
            rec_o = [(o.key, V.srepr(o.value)) for o in pb.recorded_outputs if 'sink' in o.key]
            play_o = [(o.key, V.srepr(o.value)) for o in pb.playback_outputs if 'sink' in o.key]
            run.ev('shared-alias-replay', rnd, rec_o, play_o)
            run.check(dict(rec_o) == want and len(rec_o) == len(want), 'recorded_outputs_equal_sent', 'shared-alias:recorded-live-entries-differ',
                      lambda: 'sent %s, recording holds %s' % (sorted(want.items()), sorted(rec_o)))
            run.check(len(play_o) == len(set(k for k, v in play_o)), 'one_entry_per_call', 'shared-alias:duplicate-playback-entry',
                      lambda: 'playback outputs hold a key twice: %s' % sorted(play_o))
            want_play = dict(want)
            if state['edit'] is not None:
                want_play['output: sink #%d.output' % (edit_at + 1)] = V.srepr({'args': [('edited', edit_at)], 'kwargs': {}})
            run.check(dict(play_o) == want_play and len(play_o) == len(want_play), 'playback_outputs_equal_sent', 'shared-alias:playback-entries-differ',
                      lambda: 'replay sent %s, playback outputs hold %s' % (sorted(want_play.items()), sorted(play_o)))
            diff = sorted(k for k in set(want_play) | set(dict(rec_o)) if want_play.get(k) != dict(rec_o).get(k))
            exp_diff = ['output: sink #%d.output' % (edit_at + 1)] if state['edit'] is not None else []
            got_diff = sorted(k for k in set(dict(play_o)) | set(dict(rec_o)) if dict(play_o).get(k) != dict(rec_o).get(k))
            run.check(got_diff == exp_diff, 'difference_exactly_at_edits', 'shared-alias:difference-set',
                      lambda: 'recorded and replayed outputs differ at %s, the edit is at %s' % (got_diff, exp_diff))
    finally:
        store.close()
    return run


def _run(tape, clock):
    k_ = tape.draw(8)
    if k_ == 7:
        return threaded_same_alias(tape, clock)
    if k_ == 6:
        return shared_alias(tape, clock)
    run = Run(PROP)
    V.set_flavour(tape)
    if tape.draw(6) == 5:
        poison(run)
    many = tape.draw(3) == 2
    spec = R.gen_service(tape, run, max_steps=30 if many else 12, max_inputs=2, max_outputs=1 if many else 3, threads=False)
    if not spec.outputs:
        o = R.OutputSpec(0)
        spec.outputs.append(o)
        spec.body.append(['out', 0, ((1,), {}), ('value', 2), None])
    R.fill_outcomes(tape, run, spec)
    if tape.draw(6) == 5:
        spec.body.append(['raise', tape.choice(R.D.EXC_CLASSES)])
    for o_ in spec.outputs:
        if tape.draw(3) == 2:
            o_.fail_on_missing, o_.default_result = False, ('default', o_.alias)     # an output whose result is optional in replay
    if tape.draw(8) == 7:
        # recording is switched off while the operation runs: what is sent afterwards cannot be captured, so no recording
        # may claim to hold this run's outputs
        spec.body.insert(tape.draw(len(spec.body) + 1), ['disable'])
        run.probe('recording_switched_off_midway')
    nedits = tape.weighted([(2, 0), (5, 1), (1, 2), (1, 3)])
    # P' shares P's input specs (argument objects included): key stability for structurally equal but
    # separately built arguments is C06's business, not this property's
    spec2 = copy.copy(spec)
    spec2.body = copy.deepcopy(spec.body)
    spec2.outputs = copy.deepcopy(spec.outputs)
    overrides = {}
    edits = [apply_edit(tape, run, spec2, overrides) for _ in range(nedits)]
    if tape.draw(4) == 3:
        # the replayed code asks for a discard or forced sampling (nothing is being recorded: both are no-ops that must not
        # disturb what is captured)
        for _ in range(1 + tape.draw(2)):
            spec2.body.insert(tape.draw(len(spec2.body) + 1), [tape.choice(['discard', 'force'])])
        run.probe('discard_or_force_called_in_replay')
    store = C.gen_store(tape, clock)
    run.config = {'cassette': store.describe(), 'edits': edits}
    for line in spec.describe():
        run.say(line)
    run.say("edits %s -> P' body %s" % (edits, R.describe_steps(spec2.body)))
    run.ev('pair', spec.describe(), edits, R.describe_steps(spec2.body), store.describe())
    try:
        rec = R.record_once(spec, run, store.open(), rseed=1, sent=True)
        if rec.svc.disabled_at is not None and rec.svc.calls_begun > rec.svc.disabled_at:
            run.check(not rec.saved, 'recorded_outputs_equal_sent', 'saved-although-calls-were-not-captured',
                      'interceptions ran after recording was switched off (not captured), yet a recording of the run was saved as complete')
            return run
        if not rec.saved:
            run.violate('recording_saved', 'not-saved', 'fault-free recording was not saved')
            return run
        # what the recorder put into the recording, before any serializer: exactly what the code sent
        live = R.live_recorded_outputs(rec)
        exp_live = expected_outputs(rec.svc, rec.outcome)
        if live is not None and live != exp_live:
            wrong = sorted(k for k in set(live) | set(exp_live) if live.get(k) != exp_live.get(k))
            run.violate('recorded_outputs_equal_sent', 'recorded-live-entries-differ',
                        'the recording as filled by the recorder differs from what the code sent at %s' % wrong[:4])
            return run
        if not R.recording_in_faithful_domain(rec):
            run.probe('recording_outside_faithful_domain')
            return run
        cas2 = store.open(read_only=True)
        recorder2 = TapeRecorder(cas2)
        if tape.draw(3) == 2:
            # the replaying recorder has a history: an earlier replay failed after sending some outputs
            R.failing_replay(spec, run, tape, cas2, rec.rec_id, recorder2)
        rep = R.replay_once(spec2, run, cas2, rec.rec_id, overrides=overrides, sent=True, recorder=recorder2)
        if rep.outcome.kind != 'return':
            run.violate('replay_completes', 'play-raised:%s' % type(rep.outcome.exc).__name__,
                        "play() of P' raised %r" % (rep.outcome.exc,))
            return run
        pb = rep.playback
        pm, pd = R.outputs_as_map(pb.playback_outputs)
        rm, rd = R.outputs_as_map(pb.recorded_outputs)
        exp_p = expected_outputs(rep.svc, rep.op_outcome)
        exp_r = expected_outputs(rec.svc, rec.outcome)
        run.check(not pd, 'one_entry_per_call', 'duplicate-playback-entry', lambda: 'duplicate keys in playback outputs: %s' % pd)
        run.check(not rd, 'one_entry_per_call', 'duplicate-recorded-entry', lambda: 'duplicate keys in recorded outputs: %s' % rd)
        run.check(len(pb.playback_outputs) == len(exp_p), 'one_entry_per_call', 'playback-entry-count',
                  lambda: 'playback has %d entries for %d sent outputs' % (len(pb.playback_outputs), len(exp_p)))
        for name, got, exp in (('playback', pm, exp_p), ('recorded', rm, exp_r)):
            if got != exp:
                missing = sorted(set(exp) - set(got))
                extra = sorted(set(got) - set(exp))
                wrong = sorted(k for k in set(exp) & set(got) if exp[k] != got[k])
                what = 'missing' if missing else ('extra' if extra else 'value')
                run.violate('%s_outputs_equal_sent' % name, '%s-%s%s' % (name, what, ':operation' if OPKEY in (missing + extra + wrong) else ''),
                            '%s outputs differ from what the code sent: missing=%s extra=%s wrong=%s' % (name, missing[:4], extra[:4], wrong[:4]))
        # consequently: differences appear at exactly the affected entries
        diff_expected = set(k for k in set(exp_p) | set(exp_r) if exp_p.get(k) != exp_r.get(k))
        diff_seen = set(k for k in set(pm) | set(rm) if pm.get(k) != rm.get(k))
        run.check(diff_expected == diff_seen, 'difference_exactly_at_edits', 'difference-set',
                  lambda: 'difference between playback and recorded outputs is at %s, the edits affect %s' % (sorted(diff_seen)[:5], sorted(diff_expected)[:5]))
        counts = {}
        for alias, a, k in rep.svc.sent:
            counts[alias] = counts.get(alias, 0) + 1
        if any(n >= 10 for n in counts.values()):
            run.probe('ordinal_ge_10')
        for o in spec2.outputs:
            if counts.get(o.alias):
                run.probe('handler_output' if o.handler else 'plain_output')
                run.probe('static_output' if o.kind == 'static' else 'instance_output')
        if rep.op_outcome.kind == 'raise':
            run.probe('operation_raised')
        run.nontrivial = bool(rep.svc.sent)
        run.ev('outputs', sorted(pm.items()), sorted(rm.items()))
        if not run.violations and tape.draw(3) == 2:
            # a consumer normalises the outputs it was handed in place; a second replay must again report what was sent
            changed = 0
            for o_ in list(pb.recorded_outputs) + list(pb.playback_outputs):
                if V.mutate_in_place(tape, o_.value):
                    changed += 1
            if changed:
                run.probe('second_replay_after_mutating_handed_out_outputs')
                rep2 = R.replay_once(spec2, run, cas2, rec.rec_id, overrides=overrides, sent=True, recorder=recorder2)
                if rep2.outcome.kind == 'return':
                    pm2, _ = R.outputs_as_map(rep2.playback.playback_outputs)
                    rm2, _ = R.outputs_as_map(rep2.playback.recorded_outputs)
                    run.check(rm2 == exp_r, 'recorded_outputs_equal_sent', 'recorded-differs-on-second-replay',
                              'after the outputs handed out by a first replay were modified in place, the second replay reports other recorded outputs than were sent')
                    run.check(pm2 == expected_outputs(rep2.svc, rep2.op_outcome), 'playback_outputs_equal_sent', 'playback-differs-on-second-replay',
                              'the second replay reports other playback outputs than its code sent')
                else:
                    run.violate('replay_completes', 'second-play-raised:%s' % type(rep2.outcome.exc).__name__, 'the second replay raised %r' % (rep2.outcome.exc,))
    finally:
        store.close()
    return run
