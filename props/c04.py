"""C04 Recording is transparent to the recorded service (DESIGN.md section 4, C04)."""
import os
import traceback

from simkit import REPO
from simkit.core import Run
from simkit.sim import Sim, SimDeadlock, SimLimit
from simkit.tape import Tape
from simkit import values as V
from simkit import seams
from simkit.core import HarnessError
from simkit.runner import safe_run_tape

from playback.tape_recorder import TapeRecorder
from playback.tape_cassettes.in_memory.in_memory_tape_cassette import InMemoryTapeCassette

from engines import recplay as R

PROP = 'C04'

IN_FAULTS = ['key_unbuildable', 'handler_raises', 'copy_fails', 'unserializable_value', 'discard_in_body',
             'force_in_body', 'discard_before', 'force_before', 'fallback_raises', 'resolver_raises', 'disable_in_body', 'disable_before', 'discard_in_body_handler_raises', 'raises_opaque']
OUT_FAULTS = ['handler_raises', 'discard_in_body', 'force_in_body', 'discard_before', 'force_before',
              'unserializable_value', 'unserializable_argument', 'disable_in_body', 'disable_in_handler', 'disable_before', 'discard_in_body_handler_raises', 'raises_opaque']

META = {
    'engine': 'recplay',
    'level': 'fault_enumeration',
    'level_text': ('Per generated program every single placement of every tolerated fault kind at every interception step is '
                   'enumerated (pairs sampled), and for threaded programs every single line-level pre-emption placement '
                   '(capped) plus seeded random schedules; the oracle is an undecorated twin with object-identity and '
                   'exactly-once journals.  Programs themselves are sampled, so this is enumeration of fault/schedule '
                   'placements over sampled workloads, not a proof. Also: two placed pre-emptions (bound 2) over eagerly started fire-and-forget workers, DEBUG logging switched on, recording switched off from inside an intercepted body, and unusual call shapes (no arguments, keywords only, unhashable first arguments or classes) with recording disabled. A decorated operation invoked while another operation of the same recorder is being recorded (nested, concurrent): known finding F1.'),
    'level_note': ('Trusted: the generated-service interpreter and environment journal (engines/recplay.py), the baton '
                   'scheduler (simkit/sim.py, determinism self-tested), CPython line-event semantics. Assumes no nested or '
                   'concurrent operations on one recorder; line granularity of pre-emption.'),
    'rule': ('Each evaluation = one generated service (1-4 intercepted inputs, 0-3 outputs, <=10 steps, optional worker '
             'threads incl. stragglers) run three times: undecorated twin, decorated with recording enabled under a '
             'fault plan (and, for threaded programs, under the seeded line-level scheduler), decorated with recording '
             'disabled.  Work item = one generated program: first fault-free, then every single placement of every '
             'applicable fault kind at every interception step (exhaustive per program), then random pairs; threaded '
             'programs additionally get every single pre-emption placement (<=1 pre-emption, exhaustive per program, '
             'capped), two placed pre-emptions for fire-and-forget workers (the worker starts at once, pre-emption #1 at each '
             'of its line points, pre-emption #2 at a stride over the finalisation that follows; sampled, wall-clock capped) '
             'and random pre-emption.  Non-trivial = at least one fault fired or at least one context '
             'switch happened inside playback code; distinct = distinct event-log digest.'),
    'assumptions': [
        'no nested or concurrent operations on one recorder (the code asserts against it)',
        'pre-emption granularity is the source line of /repo/playback/*.py; races inside one line are not explored',
        'interrupt-style (BaseException) terminations are not tolerated faults for this property (see C05/C18)',
        'worker threads are created through the simulator (real threads, scheduling decided by the tape)',
    ],
    'components_real': ['playback.tape_recorder.TapeRecorder (all decorators)', 'MemoryRecording',
                        'InMemoryTapeCassette', 'pickle_copy / jsonpickle', 'threading.local'],
    'components_stub': ['thread scheduling (baton-passing scheduler, sys.settrace line pre-emption)',
                        'the recorded service (generated program) and its environment', 'cassette save failure (spy)'],
    'budgets': {'quick': {'seconds': 40}, 'thorough': {'seconds': 600}},
    'required_probes': {'quick': ['operation_invoked_while_another_is_being_recorded'], 'thorough': ['operation_invoked_while_another_is_being_recorded', 'two_placed_preemptions', 'threaded_program', 'straggler_in_flight_at_finalise', 'discard_while_in_flight',
                                     'pair_of_faults']},
}

TARGET = os.path.join(REPO, 'playback')


def locate(steps, target):
    for n, st in enumerate(steps):
        if st is target:
            return steps, n
        if st[0] == 'spawn':
            for b in st[1]:
                r = locate(b, target)
                if r is not None:
                    return r
    return None


def apply_fault(spec, io_steps, pos, kind_raw, run):
    st = io_steps[pos % len(io_steps)]
    kinds = IN_FAULTS if st[0] == 'in' else OUT_FAULTS
    kind = kinds[kind_raw % len(kinds)]
    if kind in ('resolver_raises', 'unserializable_argument'):
        return R.place_fault(spec, st, kind, run)
    if kind in ('discard_before', 'force_before', 'disable_before'):
        lst, n = locate(spec.body, st)
        lst.insert(n, {'discard_before': ['discard'], 'force_before': ['force'], 'disable_before': ['disable']}[kind])
        return kind
    if kind in ('handler_raises', 'disable_in_handler', 'discard_in_body_handler_raises'):
        (spec.inputs if st[0] == 'in' else spec.outputs)[st[1]].handler = True
    if kind == 'fallback_raises':
        ispec = spec.inputs[st[1]]
        if ispec.fallback is None or ispec.fallback[0] != 'fn':
            ispec.fallback = ('fn', ['old_' + ispec.alias])
    if kind == 'copy_fails':
        spec.op.params = dict(spec.op.params or {}, copy_data_on_intercepion=True)
    if kind == 'unserializable_value' and st[0] == 'out':
        st[3] = ('value', R.D.Unserializable(3))
        run.fault('unserializable_value')
        return kind
    st[4] = kind
    return kind


def outcome_of(fn):
    try:
        return ('return', fn(), None)
    except Exception as ex:
        tb = traceback.extract_tb(ex.__traceback__)
        where = [f for f in tb if f.filename.startswith(TARGET)]
        return ('raise', ex, '%s.%s' % (os.path.basename(where[-1].filename)[:-3], where[-1].name) if where else 'service')


def run_tape(tape):
    import contextlib
    with seams.deterministic(tape):
        with contextlib.ExitStack() as stack:
            return _run_tape(tape, stack)


def overlapping_operations(tape):
    """A decorated operation is invoked while another operation of the same recorder is being recorded: called from inside
    it (nested), or on another thread of the service (concurrent requests).  Callers must see what the undecorated code does."""
    from playback.tape_cassettes.in_memory.in_memory_tape_cassette import InMemoryTapeCassette as _Mem
    run = Run(PROP)
    variant = tape.choice(['nested', 'concurrent'])
    run.probe('operation_invoked_while_another_is_being_recorded')
    run.nontrivial = True
    spy = R.SpyCassette(_Mem(), run)
    recorder = TapeRecorder(spy)
    recorder.enable_recording()
    sim = Sim(tape, run, preempt_p=0.0, prim_p=0.0, trace_lines=False, max_steps=20000)

    class Inner(object):
        @recorder.operation()
        def execute(self, x):
            return ('inner', self.read(x))

        @recorder.intercept_input('read')
        def read(self, x):
            if variant == 'concurrent':
                sim.sleep(0.01)          # the request takes a moment: the other request starts meanwhile
            return x * 10

    class Outer(object):
        @recorder.operation()
        def execute(self, x):
            return ('outer', Inner().execute(x))
    R.D.register('Inner', Inner)
    R.D.register('Outer', Outer)
    outcomes = {}

    def main():
        if variant == 'nested':
            outcomes['outer'] = R.call_outcome(lambda: Outer().execute(2))
        else:
            tasks = [sim.spawn(lambda k=k: outcomes.__setitem__('request%d' % k, R.call_outcome(lambda: Inner().execute(k))), name='request%d' % k) for k in (1, 2)]
            for t in tasks:
                sim.join(t)
    try:
        sim.run_main(main)
    except SimDeadlock as ex:
        run.violate('no_deadlock', 'deadlock', str(ex))
        return run
    expected = {'outer': ('outer', ('inner', 20))} if variant == 'nested' else {'request1': ('inner', 10), 'request2': ('inner', 20)}
    run.say('%s operations on one recorder: %s' % (variant, sorted((k, repr(v)) for k, v in outcomes.items())))
    run.ev('overlap', variant, sorted((k, v.kind) for k, v in outcomes.items()))
    for name in sorted(expected):
        out = outcomes.get(name)
        if out is None or out.kind != 'return':
            ex = out.exc if out is not None else None
            origin = R.origin_note(ex) if ex is not None else ('none', 'none', '')
            run.violate('call_result_identity', 'operation-while-another-is-recorded:%s:%s@%s' % (variant, origin[0], origin[1]),
                        '%s: %s raised %r into its caller; the undecorated code returns %r' % (variant, name, ex, expected[name]))
        else:
            run.check(out.value == expected[name], 'same_behaviour_as_twin', 'operation-result-differs',
                      lambda: '%s: %s returned %r, the undecorated code returns %r' % (variant, name, out.value, expected[name]))
    return run


def _run_tape(tape, stack):
    run = Run(PROP)
    # ---- configuration draws, fixed order (systematic placement overrides them through the tape prefix)
    nfaults = tape.draw(4)
    if nfaults == 3:
        return overlapping_operations(tape)
    f = [(tape.draw(4096), tape.draw(64)), (tape.draw(4096), tape.draw(64))]
    threaded = tape.draw(3) == 2
    preempt_class = tape.draw(4)
    place_mode = tape.draw(3)          # 0 random pre-emption, 1 one placed pre-emption, 2 two placed pre-emptions (threads start eagerly)
    place_idx = tape.draw(1 << 20)
    place_to = tape.draw(4)
    straggle = tape.draw(3) == 2
    sampling = tape.choice([None, None, {'sampling_rate': 0.0}, {'sampling_rate': 0.5}, {'ignore_enforced_sampling': True, 'sampling_rate': 0.5},
                            {'copy_data_on_intercepion': True}])
    save_raises = tape.draw(6) == 5
    extractor = tape.choice([None, 'ok', 'ok', 'raises', 'junk_none', 'junk_int', 'junk_str', 'junk_list', 'junk_lock'])
    rseed = tape.draw(1000)
    if tape.draw(5) == 4:
        # the service runs with the library's DEBUG logging on: logging is not behaviour
        stack.enter_context(seams.debug_logging())
        run.probe('library_logging_at_debug_level')
    place2_idx = tape.draw(1 << 20)
    place2_to = tape.draw(4)

    spec = R.gen_service(tape, run, max_steps=10, threads=threaded)
    R.fill_outcomes(tape, run, spec)
    spec.op.params = sampling
    spec.op.params_style = 'kwargs' if (sampling and tape.draw(2)) else 'object'
    spec.op.extractor = extractor
    if tape.draw(6) == 5:
        spec.body.append(['rec', 'opaque', R.D.Unserializable(9)])      # explicitly recorded data that cannot be serialized
    if tape.draw(4) == 3:
        # the service itself fails: the operation (also after a discard) must raise exactly that exception
        spec.body.insert(tape.draw(len(spec.body) + 1), ['raise', tape.choice(R.D.EXC_CLASSES)])
        run.probe('operation_raises')
    has_spawn = any(st[0] == 'spawn' for st in spec.body)
    if has_spawn and straggle:
        for st in spec.body:
            if st[0] == 'spawn':
                st[2] = True
    io_steps = [s for s in R.flat_steps(spec.body) if s[0] in ('in', 'out')]
    run.config = {'io_steps': [s[0] for s in io_steps], 'threaded': has_spawn}
    placed = []
    if io_steps:
        for n in range(nfaults):
            placed.append(apply_fault(spec, io_steps, f[n][0], f[n][1], run))
    if len(placed) == 2:
        run.probe('pair_of_faults')
    for line in spec.describe():
        run.say(line)
    run.say('faults placed: %s; save_raises=%s extractor=%s params=%s' % (placed, save_raises, extractor, sampling))
    run.ev('spec', spec.describe(), placed, save_raises)

    # ---- run A: undecorated twin
    env_a = R.Env(spec, run)
    svc_a = R.Service(spec, env_a, recorder=None, decorate=False, thread_factory=R.inline_thread_factory)
    out_a = outcome_of(svc_a.invoke)

    # ---- run B: decorated, recording enabled, fault plan active
    spy = R.SpyCassette(InMemoryTapeCassette(), run)
    spy.save_raises = save_raises
    recorder = TapeRecorder(spy, random_seed=rseed)
    recorder.enable_recording()
    env_b = R.Env(spec, run, recorder)
    if has_spawn:
        p = [0.0, 0.02, 0.1, 0.4][preempt_class]
        placements = {place_idx: place_to} if place_mode == 1 else ({place_idx: place_to, place2_idx: place2_to} if place_mode == 2 else None)
        # (opcode-granularity pre-emption was tried - Sim(opcodes=True) - and dropped: sys.settrace opcode events on
        # several threads crash CPython 3.12.1 with a segmentation fault; races inside one source line stay invisible)
        sim = Sim(tape, run, preempt_p=0.0 if place_mode else p, prim_p=0.0 if place_mode else max(p, 0.1),
                  target_prefixes=[TARGET], placements=placements, max_steps=60000, eager_start=place_mode == 2, record_points=place_mode == 2)
        if place_mode == 2:
            run.probe('two_placed_preemptions')
        svc_b = R.Service(spec, env_b, recorder, thread_factory=R.sim_thread_factory(sim))
        run.probe('threaded_program')
        env_b.on_body_done = lambda: sim.mark('body_done')

        def main():
            out = outcome_of(svc_b.invoke)
            in_flight = [t for t in svc_b.threads if t[3] and t[1].task is not None and t[1].task.state not in ('done', 'dead')]
            if in_flight:
                run.probe('straggler_in_flight_at_finalise')
            for name, th, tobs, strag in svc_b.threads:
                th.join()
            return out
        try:
            out_b = sim.run_main(main)
        except SimDeadlock as ex:
            run.violate('no_deadlock', 'deadlock', 'recording made the threaded service deadlock: %s' % ex)
            return run
        except SimLimit as ex:
            raise HarnessError('step cap in C04: %s' % ex)
        run.config['line_points'] = sim.line_points
        if sim.point_owner is not None:
            run.config['point_owner'] = list(sim.point_owner)
            run.config['body_done_at'] = sim.marks.get('body_done')
        run.nontrivial = bool(run.faults) or sim.switches > 2
    else:
        svc_b = R.Service(spec, env_b, recorder, thread_factory=R.inline_thread_factory)
        out_b = outcome_of(svc_b.invoke)
        run.nontrivial = bool(run.faults)
    if any(k in placed for k in ('discard_in_body', 'discard_before')) and has_spawn:
        run.probe('discard_while_in_flight')

    compare(run, 'enabled', spec, svc_a, out_a, svc_b, out_b)

    # ---- run C: decorated, recording disabled: pure pass-through, cassette untouched
    spy_c = R.SpyCassette(InMemoryTapeCassette(), run)
    rec_c = TapeRecorder(spy_c, random_seed=rseed)
    env_c = R.Env(spec, run, rec_c)
    svc_c = R.Service(spec, env_c, rec_c, thread_factory=R.inline_thread_factory)
    out_c = outcome_of(svc_c.invoke)
    compare(run, 'disabled', spec, svc_a, out_a, svc_c, out_c)
    disabled_call_shapes(run, rec_c, svc_c)
    run.check(not spy_c.calls, 'disabled_never_touches_cassette', 'cassette-call-while-disabled',
              lambda: 'with recording disabled the cassette saw %r' % (spy_c.calls,))
    run.ev('outcome', out_b[0], V.canon(out_b[1]) if out_b[0] == 'return' else type(out_b[1]).__name__,
           [tuple(c[:4]) for c in svc_b.checks], spy.calls)
    return run


def disabled_call_shapes(run, recorder, svc):
    """Pure pass-through means: whatever way the caller invokes the decorated callable, it behaves as the undecorated one
    (keyword-only calls, no arguments at all, unhashable first arguments, classes that cannot be dictionary keys)."""
    marker = object()

    def free(*args, **kwargs):
        return (marker, args, kwargs)

    class Unhashable(type):
        __hash__ = None

    class Odd(Unhashable('OddBase', (object,), {})):
        def run_it(self, order=0):
            return (marker, order)
    shapes = [
        ('operation on a function called without arguments', recorder.operation()(free), (), {}),
        ('operation on a function called with keywords only', recorder.operation()(free), (), {'order': 4}),
        ('class operation called with a dict as first argument', recorder.class_operation()(free), ({'a': 1},), {}),
        ('class operation called with a list as first argument', recorder.class_operation()(free), ([1, 2],), {'k': None}),
        ('input called without arguments', recorder.intercept_input('shape_in')(free), (), {}),
        ('static input called without arguments', recorder.static_intercept_input('shape_sin')(free), (), {}),
        ('output called without arguments', recorder.intercept_output('shape_out')(free), (), {}),
        ('static output called with keywords only', recorder.static_intercept_output('shape_sout')(free), (), {'x': 1}),
    ]
    for what, fn, args, kwargs in shapes:
        try:
            got = fn(*args, **kwargs)
            ok = got[0] is marker and got[1] == args and got[2] == kwargs
            why = 'returned %r' % (got,)
        except Exception as ex:
            ok, why = False, 'raised %r' % (ex,)
        run.check(ok, 'disabled_is_pass_through', 'call-shape-not-passed-through', lambda: '[disabled] %s: %s' % (what, why))
    try:
        dec = recorder.operation()(Odd.run_it)
        got = dec(Odd(), order=3)
        ok, why = got == (marker, 3), 'returned %r' % (got,)
    except Exception as ex:
        ok, why = False, 'raised %r' % (ex,)
    run.check(ok, 'disabled_is_pass_through', 'call-shape-not-passed-through', lambda: '[disabled] operation of a class that cannot be a dictionary key: %s' % why)
    run.probe('disabled_call_shapes')


def compare(run, label, spec, svc_a, out_a, svc_b, out_b):
    before = len(run.violations)
    per_call(run, label, svc_a, svc_b)
    if len(run.violations) > before:
        return   # result differences below would only restate the per-call violations
    # operation outcome
    if out_a[0] == 'return':
        if out_b[0] != 'return':
            run.violate('call_result_identity', 'exception-from-framework:%s@%s' % (type(out_b[1]).__name__, out_b[2]),
                        '[%s] operation raised %r (from %s); undecorated twin returned normally' % (label, out_b[1], out_b[2]))
        else:
            run.check(out_b[1] is svc_b.last_result, 'call_result_identity', 'operation-result-not-identical',
                      '[%s] operation returned an object that is not the one its body returned' % label)
            run.check(V.canon(out_b[1]) == V.canon(out_a[1]), 'same_behaviour_as_twin', 'operation-result-differs',
                      lambda: '[%s] operation result differs from twin: %s vs %s' % (label, V.short(out_b[1], 300), V.short(out_a[1], 300)))
    else:
        if out_b[0] != 'raise':
            run.violate('call_result_identity', 'exception-swallowed', '[%s] twin raised %r, decorated returned' % (label, out_a[1]))
        else:
            run.check(type(out_b[1]) is type(out_a[1]), 'call_result_identity',
                      'exception-from-framework:%s@%s' % (type(out_b[1]).__name__, out_b[2]),
                      lambda: '[%s] operation raised %r (from %s), twin raised %r' % (label, out_b[1], out_b[2], out_a[1]))
            run.check(out_b[1] is svc_b.last_raised or type(out_b[1]) is not type(out_a[1]), 'call_result_identity',
                      'operation-exception-not-identical', '[%s] raised exception object is not the one the body raised' % label)
    # per-thread observations (stragglers and joined workers alike)
    ta = dict((t[0], t[2]) for t in svc_a.threads)
    tb = dict((t[0], t[2]) for t in svc_b.threads)
    for name in ta:
        if V.canon(ta[name]) != V.canon(tb.get(name)):
            run.violate('same_behaviour_as_twin', 'thread-observations-differ',
                        '[%s] worker thread %s observed %s, twin observed %s' % (label, name, V.short(tb.get(name), 300), V.short(ta[name], 300)))


def per_call(run, label, svc_a, svc_b):
    ca, cb = svc_a.checks, svc_b.checks
    for c in cb:
        if c.identical_raise is False:
            run.violate('call_result_identity', 'exception-from-framework:%s@%s' % (c.note[0], c.note[1]),
                        '[%s] intercepted call %s (thread %s) raised %s from %s, which its body did not raise' % (
                            label, c.alias, c.thread, c.note[2], c.note[1]))
            continue
        if c.bodies != 1:
            run.violate('body_exactly_once', 'body-executed-%s-times' % ('zero' if c.bodies == 0 else 'many'),
                        '[%s] wrapped body of %s executed %d times for one call (thread %s) %s' % (label, c.alias, c.bodies, c.thread, c.note or ''))
        if c.identical_return is False:
            run.violate('call_result_identity', 'intercepted-return-not-identical',
                        '[%s] intercepted %s returned an object that is not what its body returned' % (label, c.alias))
        if c.args_identical is False:
            run.violate('same_arguments', 'arguments-not-identical', '[%s] body of %s received different argument objects' % (label, c.alias))
    if len(ca) != len(cb):
        run.violate('same_behaviour_as_twin', 'number-of-calls-differs', '[%s] %d calls vs %d in twin' % (label, len(cb), len(ca)))


def run_index(i, seed, tier, emit):
    """One generated program: fault-free, every single fault placement, single pre-emption placements, random."""
    import sys
    mod = sys.modules[__name__]
    if i % 16 == 0:
        for variant in (0, 1):          # nested / concurrent operations on one recorder
            t = Tape(seed, prefix=[3, variant])
            emit(safe_run_tape(mod, t), t)
    t = Tape(seed, prefix=[0, 0, 0, 0, 0])
    dry = safe_run_tape(mod, t)
    emit(dry, t)
    steps = dry.config.get('io_steps', [])
    # every single placement of every applicable kind
    for pos, kind in enumerate(steps):
        for k in range(len(IN_FAULTS if kind == 'in' else OUT_FAULTS)):
            t = Tape(seed, prefix=[1, pos, k])
            emit(safe_run_tape(mod, t), t)
    # random pairs
    npairs = 6 if tier == 'quick' else 20
    if len(steps) >= 2:
        for n in range(npairs):
            t = Tape(seed, prefix=[2, (n * 7919 + seed) % 4096, (n * 31 + seed // 7) % 64,
                                   (n * 104729 + seed // 3) % 4096, (n * 17 + seed // 11) % 64])
            emit(safe_run_tape(mod, t), t)
    if dry.config.get('threaded'):
        base = list(t.used[:5]) if False else None
        # <=1 pre-emption exhaustively over line points (capped), fault-free and with a random single fault
        d2 = Tape(seed, prefix=[0, 0, 0, 0, 0, 2, 0, 1, 0, 0])
        r2 = safe_run_tape(mod, d2)
        emit(r2, d2)
        n_points = r2.config.get('line_points', 0)
        cap = 150 if tier == 'quick' else 600
        stride = max(1, n_points // cap)
        for idx in range(0, n_points, stride):
            for to in (0, 1):
                tt = Tape(seed, prefix=[0, 0, 0, 0, 0, 2, 0, 1, idx, to])
                emit(safe_run_tape(mod, tt), tt)
        # <=2 pre-emptions over line points, for fire-and-forget workers (still inside an interception when the
        # operation is finalised): every started thread runs first, pre-emption #1 at a line point of a worker,
        # pre-emption #2 at a later line point of whoever runs then; capped by sampling with a stride
        d3 = Tape(seed, prefix=[0, 0, 0, 0, 0, 2, 0, 2, 1 << 19, 0, 2])
        r3 = safe_run_tape(mod, d3)
        emit(r3, d3)
        owner = r3.config.get('point_owner') or []
        n3 = len(owner)
        firsts = [k for k in range(n3) if owner[k] != 0]
        budget = 600 if tier == 'quick' else 6000
        if firsts and n3:
            tail = list(d3.used[11:16])
            per_first = max(1, budget // len(firsts))
            import time as _time
            sweep_until = _time.time() + (25.0 if tier == 'quick' else 150.0)      # wall-clock cap of the sweep of one program
            for k in firsts:
                if _time.time() > sweep_until:
                    break
                # first the run with pre-emption #1 alone tells where, in that execution, the operation body ended: the
                # points after it are the recorder's finalisation, where a worker still in flight matters most
                t1 = Tape(seed, prefix=[0, 0, 0, 0, 0, 2, 0, 2, k, 0, 2] + tail + [1 << 19, 0])
                r1 = safe_run_tape(mod, t1)
                emit(r1, t1)
                n1 = len(r1.config.get('point_owner') or [])
                done_at = r1.config.get('body_done_at')
                if done_at is None or done_at <= k:
                    lo = k + 1
                else:
                    lo = done_at
                rest = max(1, n1 - lo)
                stride2 = max(1, rest // per_first)
                for m in range(lo, n1, stride2):
                    tt = Tape(seed, prefix=[0, 0, 0, 0, 0, 2, 0, 2, k, 0, 2] + tail + [m, 0])
                    emit(safe_run_tape(mod, tt), tt)
                if tier != 'quick' and lo > k + 1:
                    # thorough: also the points between pre-emption #1 and the end of the body, at a stride
                    early = lo - k - 1
                    for m in range(k + 1, lo, max(1, early // max(1, per_first // 2))):
                        tt = Tape(seed, prefix=[0, 0, 0, 0, 0, 2, 0, 2, k, 0, 2] + tail + [m, 0])
                        emit(safe_run_tape(mod, tt), tt)
        # random pre-emption with random faults
        for n in range(20 if tier == 'quick' else 80):
            tt = Tape(hash((seed, n)) & 0xffffffffffff, prefix=[n % 3, (n * 7919) % 4096, (n * 31) % 64, 0, 0, 2, 1 + n % 3, 0])
            emit(safe_run_tape(mod, tt), tt)
