"""C11 Recorded data cannot be altered through the values handed out (DESIGN.md section 4, C11)."""
import copy

from simkit import seams
from simkit import values as V
from simkit.core import Run

from playback.tape_recorder import TapeRecorder

from engines import recplay as R
from engines import cassettes as C

PROP = 'C11'
T = TapeRecorder

META = {
    'engine': 'recplay',
    'level': 'exploration',
    'level_text': ('Seeded histories: a service whose inputs and outputs carry mutable values (lists, dicts, sets, objects, nested) is recorded '
                   '(optionally with copy-on-interception while the service mutates what it received), then the stored recording is read '
                   'through every hand-out path - get_data, item access, metadata, recorded-output extraction, replay injection with the '
                   'replayed code mutating what it was given - with a seeded in-place mutation applied between any two reads, fetches '
                   'and replays, on all three cassettes.  Later reads must equal the first read\'s original value. Also: two or more threads reading from one fetched recording under the line-level scheduler with pre-emption inside the copy, value classes whose copy hooks return self, and copy failures in an earlier operation on the same recorder. Copy-on-interception switched on by assigning the attribute of a registered parameters object.'),
    'level_note': 'Trusted: in-place mutation generator (simkit.values.mutate_in_place), canonical form comparison. Output arguments are never copied at interception time by design and are not mutated by the generated service.',
    'rule': ('evaluation = one recorded service followed by 2-5 rounds of read / mutate / read over every key and path, two fetches and two replays; '
             'non-trivial = at least one handed-out mutable value was really mutated; distinct = distinct event-log digest.'),
    'assumptions': ['without copy-on-interception the service does not mutate intercepted values (the property states so)',
                    'metadata independence is required across fetches, not within one Recording object'],
    'components_real': ['MemoryRecording.get_data / pickle_copy', 'TapeRecorder record + play + recorded-output extraction', 'all three cassettes'],
    'components_stub': ['S3 bucket', 'service and environment'],
    'budgets': {'quick': {'seconds': 25}, 'thorough': {'seconds': 360}},
    'required_probes': {'thorough': ['same_operation_ran_before_with_failing_copies', 'copy_failed_in_an_earlier_operation', 'concurrent_reads', 'value_class_with_copy_hooks', 'mutated_get_data', 'mutated_item_access', 'mutated_metadata', 'mutated_recorded_output', 'service_mutated_value',
                                     'copy_on_interception', 'mutated_playback_output', 'exception_with_mutable_payload']},
}


def run_tape(tape):
    with seams.deterministic(tape) as clock:
        mode = tape.draw(8)
        if mode == 7:
            return concurrent_reads(tape, clock)
        if mode == 6:
            return values_with_copy_hooks(tape, clock)
        return _run(tape, clock)


def values_with_copy_hooks(tape, clock):
    """Recorded values of a class whose copy hooks hand back the very object (`__copy__` / `__deepcopy__` return self):
    what a recording hands out must still be a fresh copy - on every cassette, for direct reads and for replayed inputs."""
    run = Run(PROP)
    run.probe('value_class_with_copy_hooks')
    run.nontrivial = True
    store = C.gen_store(tape, clock)
    try:
        cas = store.open()
        rec = cas.create_new_recording('OpA')
        depth = tape.draw(3)
        inner = R.D.Shy(items=[1, 2, tape.draw(5)], tag='t%d' % tape.draw(4))
        value = inner if depth == 0 else ([inner, 7] if depth == 1 else {'k': [R.D.Pt(member=inner)]})
        if not V.faithful(value):
            run.probe('recording_outside_faithful_domain')
            return run
        rec.set_data('k', value)
        cas.save_recording(rec)
        original = V.canon(value)
        r = (store.open(read_only=True) if tape.draw(2) else cas).get_recording(rec.id)

        def shy_of(v):
            return v if depth == 0 else (v[0] if depth == 1 else v['k'][0].member)
        for rnd in range(2 + tape.draw(2)):
            v = r.get_data('k') if tape.draw(2) else r['k']
            if V.canon(v) != original:
                run.violate('reads_are_fresh_copies', 'get-data-aliased', 'read #%d of a value whose class has copy hooks returned %s, stored was %s' % (rnd, V.short(v, 200), V.short(value, 200)))
                break
            shy_of(v).items.append('MUTATED')
            shy_of(v).extra = rnd
        run.check(V.canon(value) == original, 'reads_are_fresh_copies', 'caller-object-aliased', 'mutating a value read from the recording changed the object the service had recorded')
        run.ev('hooks', store.describe(), depth, [v.signature for v in run.violations])
    finally:
        store.close()
    return run


def copies_failed_earlier(run, recorder):
    """History on the same recorder: an earlier operation (copy-on-interception on) intercepted values of every container
    type whose copy failed because a member could not be serialized.  Later values of those types are copied all the same."""
    from playback.tape_recorder import RecordingParameters
    bad = R.D.Unserializable(1)
    shapes = [[bad], {'k': bad}, set([1]), (bad,), R.D.Pt(member=bad), R.D.Box(member=[bad]), 'text', 7]

    @recorder.recording_params(RecordingParameters(copy_data_on_intercepion=True))
    class Earlier(object):
        @recorder.operation()
        def execute(self):
            return [type(self.fetch(n)).__name__ for n in range(len(shapes))]

        @recorder.intercept_input('earlier_fetch')
        def fetch(self, n):
            return shapes[n]
    R.D.register('Earlier', Earlier)
    try:
        Earlier().execute()
    except Exception:
        pass
    run.probe('copy_failed_in_an_earlier_operation')


def concurrent_reads(tape, clock):
    """Two threads (two replays served by one process, or a replay with worker threads) read from the same fetched
    recording at the same time, with pre-emption inside the copy; every read is still a fresh, complete, independent copy."""
    import os
    import jsonpickle
    from simkit import REPO
    from simkit.sim import Sim, SimDeadlock
    run = Run(PROP)
    run.probe('concurrent_reads')
    V.FLAVOUR['objects'], V.FLAVOUR['sharing'] = False, True
    store = C.gen_store(tape, clock)
    try:
        cas = store.open()
        rec = cas.create_new_recording('OpA')
        values = {}
        for n in range(1 + tape.draw(3)):
            shared = None
            for _ in range(6):
                shared = V.gen_faithful(tape, run, 2)
                if V.is_mutable(shared):
                    break
            if not V.is_mutable(shared):
                shared = [n, {'k': [n]}]
            v = [shared, {'again': shared}, V.gen_faithful(tape, run, 1)] if tape.draw(2) else {'a': shared, 'b': [shared, n]}
            if not V.faithful(v):
                v = [[n], [n]]
            values['key%d' % n] = v
            rec.set_data('key%d' % n, v)
        if not V.doc_faithful(values):
            run.probe('recording_outside_faithful_domain')
            return run
        cas.save_recording(rec)
        r = store.open(read_only=True).get_recording(rec.id)
        originals = dict((k, V.canon(v)) for k, v in values.items())
        keys = sorted(values)
        plans = [[keys[tape.draw(len(keys))] for _ in range(1 + tape.draw(3))] for _ in range(2 + tape.draw(2))]
        sim = Sim(tape, run, preempt_p=tape.choice([0.01, 0.05, 0.2]),
                  target_prefixes=[os.path.join(REPO, 'playback', 'utils'), os.path.join(REPO, 'playback', 'recordings'), os.path.join(REPO, 'playback', 'recording.py'),
                                   os.path.dirname(jsonpickle.__file__)], max_steps=400000)
        got = {}

        def reader(n, plan):
            def body():
                out = []
                for k in plan:
                    try:
                        out.append((k, r.get_data(k), None))
                    except Exception as ex:
                        out.append((k, None, ex))
                got[n] = out
            return body

        def main():
            tasks = [sim.spawn(reader(n, p), name='reader%d' % n) for n, p in enumerate(plans)]
            for t in tasks:
                sim.join(t)
        try:
            sim.run_main(main)
        except SimDeadlock as ex:
            run.violate('reads_are_fresh_copies', 'deadlock', str(ex))
            return run
        run.nontrivial = sim.switches > len(plans) + 1
        handed = []
        for n in sorted(got):
            for k, v, err in got[n]:
                if err is not None:
                    run.violate('reads_are_fresh_copies', 'concurrent-read-raised:%s' % type(err).__name__, 'get_data(%s) raised %r while another thread was reading from the same recording' % (k, err))
                elif V.canon(v) != originals[k]:
                    run.violate('reads_are_fresh_copies', 'concurrent-read-wrong-value', 'get_data(%s) during concurrent reads returned %s, stored is %s' % (k, V.short(v, 200), V.short(values[k], 200)))
                else:
                    handed.append((k, v))
        # independence: mutate every handed-out value in turn; no other handed-out value and no later read may change
        if not run.violations:
            for idx, (k, v) in enumerate(handed):
                if not V.mutate_in_place(tape, v):
                    continue
                for jdx, (k2, v2) in enumerate(handed):
                    if jdx > idx and V.canon(v2) != originals[k2]:
                        run.violate('reads_are_fresh_copies', 'concurrent-reads-share-objects', 'two values handed out by concurrent reads share objects: mutating one (%s) changed the other (%s)' % (k, k2))
                        break
                if run.violations:
                    break
            for k in keys:
                run.check(V.canon(r.get_data(k)) == originals[k], 'reads_are_fresh_copies', 'get-data-aliased', lambda: 'a later read of %s changed after mutating values handed out earlier' % k)
        run.ev('concurrent_reads', store.describe(), plans, sim.switches, [v.signature for v in run.violations])
    finally:
        store.close()
    return run


def mutable_outcome(tape, run):
    for _ in range(8):
        v = V.gen_faithful(tape, run, 2)
        if V.is_mutable(v):
            return ('value', v)
    return ('value', [1, {'k': [2]}])


def _run(tape, clock):
    run = Run(PROP)
    V.FLAVOUR['objects'], V.FLAVOUR['sharing'] = True, False
    copy_on = tape.draw(2) == 1
    spec = R.gen_service(tape, run, max_steps=8, max_inputs=3, max_outputs=2, threads=False)
    for i in spec.inputs:
        i.nested = None
    R.fill_outcomes(tape, run, spec)
    for i in spec.inputs:
        for k in sorted(i.outcomes, key=repr):
            if i.outcomes[k][0] == 'value' and tape.draw(3) < 2:
                i.outcomes[k] = mutable_outcome(tape, run)
    for i in spec.inputs:
        for k in sorted(i.outcomes, key=repr):
            if tape.draw(6) == 5:
                i.outcomes[k] = ('raise_payload', mutable_outcome(tape, run)[1])     # an error carrying a mutable payload
                run.probe('exception_with_mutable_payload')
    for st in spec.body:
        if st[0] == 'out' and st[3][0] == 'value' and tape.draw(3) < 2:
            st[3] = mutable_outcome(tape, run)
    spec.user_metadata = {'tags': ['a', {'b': [1]}], 'n': 1}
    spec.op.extractor = 'ok'
    for o_ in spec.outputs:
        if tape.draw(3) == 2:
            o_.fail_on_missing, o_.default_result = False, ('default', o_.alias)     # an output whose result is optional in replay
    if copy_on:
        spec.op.params = {'copy_data_on_intercepion': True}
        run.probe('copy_on_interception')
        if tape.draw(3) == 2:
            spec.op.params_style = 'attributes'
            run.probe('copy_on_interception_enabled_by_attribute')
    # the service mutates what it got right after each interception (record phase only with copy-on-interception)
    body_mut = []
    for st in spec.body:
        body_mut.append(st)
        if st[0] in ('in', 'out') and tape.draw(2):
            body_mut.append(['mut'])
    if copy_on and tape.draw(2) == 1 and body_mut:
        # the interceptions (and the mutations that follow them) happen on a worker thread of the operation
        run.probe('interception_on_worker_thread')
        body_mut = [['spawn', [body_mut], False]]
    spec_rec = copy.copy(spec)
    spec_rec.body = body_mut if copy_on else spec.body
    spec_play = copy.copy(spec)
    spec_play.body = body_mut
    store = C.gen_store(tape, clock)
    for line in spec.describe():
        run.say(line)
    run.say('copy_on_interception=%s cassette=%s; replayed body %s' % (copy_on, store.describe(), R.describe_steps(body_mut)))
    run.ev('case', spec.describe(), R.describe_steps(body_mut), copy_on, store.describe())
    try:
        # ---- record: environment hands out fresh objects; expected stored values are the pristine outcome tables
        cas = store.open()
        spy = R.SpyCassette(cas, run)
        recorder = TapeRecorder(spy)
        recorder.enable_recording()
        if copy_on and tape.draw(3) == 2:
            copies_failed_earlier(run, recorder)
            spy.calls[:] = []
        env = R.Env(spec_rec, run, recorder)
        env.fresh_copies = True
        from props.c09 import real_thread_factory
        svc = R.Service(spec_rec, env, recorder, thread_factory=real_thread_factory)
        svc.mut_tape = tape
        if copy_on and tape.draw(3) == 2:
            # the very same operation ran before on this recorder and every copy-on-interception failed in that run (values
            # that encode but cannot be restored); this run's values are copied all the same
            run.probe('same_operation_ran_before_with_failing_copies')
            env.copy_fails_everywhere = True
            svc.mut_tape = None
            R.call_outcome(svc.invoke)
            env.copy_fails_everywhere = False
            svc.mut_tape = tape
            svc.checks, svc.last_result, svc.last_raised = [], None, None
        out = R.call_outcome(svc.invoke)
        rec_id = [c[1] for c in spy.calls if c[0] == 'create'][-1]
        if ('save', rec_id) not in spy.calls:
            run.violate('saved', 'not-saved', 'recording not saved')
            return run
        fake = R.Recorded()
        fake.spy, fake.rec_id = spy, rec_id
        if not R.recording_in_faithful_domain(fake):
            run.probe('recording_outside_faithful_domain')
            return run
        # expected stored input values (pristine): key text unknown to the harness, so compare as a bag of canonical values
        exp_values = []
        for st in spec.body:
            if st[0] == 'in':
                i = spec.inputs[st[1]]
                a, k = i.pool[st[2] % len(i.pool)]
                o = i.outcomes[(R.resolved_alias(i, 'd%d' % (st[3] % 2)), R.model_captured(i, a, k))]
                if o[0] == 'value':
                    exp_values.append(V.canon({'wrapped': o[1], 'nargs': len(a) + (0 if i.kind == 'static' else 1)} if i.handler else o[1]))
            elif st[0] == 'out' and st[3][0] == 'value':
                exp_values.append(V.canon(st[3][1]))
        cas2 = store.open(read_only=True)
        r = cas2.get_recording(rec_id)
        keys = sorted(r.get_all_keys())
        stored = [V.canon(r.get_data(k)['value']) for k in keys if (k.startswith('input:') or k.endswith('.result')) and 'value' in r.get_data(k)]
        if copy_on:
            missing = [e for e in set(exp_values) if e not in stored]
            run.check(not missing, 'copy_on_interception_keeps_captured_value', 'mutation-after-capture-recorded',
                      lambda: 'with copy-on-interception the recording should hold the values as captured; not found: %s' % (V.short(missing, 400),))
        # ---- direct reads with mutations in between
        rounds = 2 + tape.draw(4)
        originals = dict((k, V.canon(r.get_data(k))) for k in keys)
        if keys and tape.draw(4) == 3:
            # fault: the copy made for one read fails; that read may fail, it must not hand out the stored object
            import playback.recordings.memory.memory_recording as MR
            real_copy = MR.pickle_copy
            state = {'armed': True}

            def failing_copy(value):
                if state['armed']:
                    state['armed'] = False
                    run.fault('copy_fails_on_read')
                    raise RuntimeError('injected: copy for this read fails')
                return real_copy(value)
            k0 = keys[tape.draw(len(keys))]
            MR.pickle_copy = failing_copy
            try:
                try:
                    leaked = r.get_data(k0)
                except Exception:
                    leaked = None
            finally:
                MR.pickle_copy = real_copy
            if leaked is not None and V.mutate_in_place(tape, leaked):
                if V.canon(r.get_data(k0)) != originals[k0]:
                    run.violate('reads_are_fresh_copies', 'stored-object-handed-out-when-copy-fails',
                                'a read whose copy failed handed out the stored object: mutating it changed later reads of %r' % (k0[:60],))
        meta0 = V.canon(r.get_metadata())
        mutated = 0
        for rnd in range(rounds):
            k = keys[tape.draw(len(keys))]
            path = tape.draw(3)
            v = r.get_data(k) if path == 0 else (r[k] if path == 1 else None)
            if path == 2:
                # a second, independent fetch of the same recording
                r = cas2.get_recording(rec_id) if tape.draw(2) else r
                v = r.get_data(k)
            if V.mutate_in_place(tape, v):
                mutated += 1
                run.probe('mutated_get_data' if path != 1 else 'mutated_item_access')
            again = r.get_data(k)
            if V.canon(again) != originals[k]:
                run.violate('reads_are_fresh_copies', 'get-data-aliased', 'after mutating a value read from key %r a later read of it changed: %s' % (k[:60], V.short(again, 300)))
                break
            r_other = cas2.get_recording(rec_id)
            if V.canon(r_other.get_data(k)) != originals[k]:
                run.violate('fetches_are_independent', 'fetch-aliased', 'after mutating a value read from key %r a later fetch of the recording changed' % (k[:60],))
                break
        # ---- metadata across fetches
        m = r.get_metadata()
        if V.mutate_in_place(tape, m):
            mutated += 1
            run.probe('mutated_metadata')
        if 'tags' in m and isinstance(m['tags'], list):
            m['tags'].append('MUTATED')
        r3 = cas2.get_recording(rec_id)
        run.check(V.canon(r3.get_metadata()) == meta0, 'fetches_are_independent', 'metadata-aliased-across-fetches',
                  'mutating the metadata of one fetched recording changed the metadata of a later fetch')
        try:
            run.check(V.canon(cas2.get_recording_metadata(rec_id)) == meta0, 'fetches_are_independent', 'metadata-only-fetch-differs',
                      'metadata fetched on its own differs after mutating a fetched recording\'s metadata')
            # metadata fetched on its own is handed out too: mutate it, fetch again, and look the recording up by metadata
            for c_ in (cas2, cas):
                md = c_.get_recording_metadata(rec_id)
                if V.mutate_in_place(tape, md):
                    run.probe('mutated_metadata_only_fetch')
                md['user_key'] = 'MUTATED'
                md[T.INCOMPLETE_RECORDING] = True
                run.check(V.canon(c_.get_recording_metadata(rec_id)) == meta0, 'fetches_are_independent', 'metadata-only-fetch-aliased',
                          'mutating the dict returned by get_recording_metadata changed what a later get_recording_metadata returns')
                if not (store.kind == 's3' and store.key_prefix == '' and False):
                    found = list(c_.iter_recording_ids(spec.op.name, metadata={T.INCOMPLETE_RECORDING: [False, None]}))
                    run.check(rec_id in found, 'fetches_are_independent', 'lookup-sees-mutated-metadata',
                              'after mutating handed-out metadata the recording is no longer found by its recorded metadata')
        except Exception as ex:
            run.violate('fetches_are_independent', 'metadata-fetch-raised', 'get_recording_metadata raised %r' % (ex,))
        # ---- replays: replayed code mutates injected inputs; recorded outputs handed out are mutated between replays
        first = None
        for n in range(2):
            rep_rec = TapeRecorder(cas2)
            env2 = R.Env(spec_play, run, rep_rec)
            svc2 = R.Service(spec_play, env2, rep_rec, thread_factory=real_thread_factory)
            svc2.mut_tape = tape
            rep = R.call_outcome(lambda: rep_rec.play(rec_id, lambda recording: svc2.invoke()))
            if rep.kind != 'return':
                run.violate('replay_completes', 'play-raised:%s' % type(rep.exc).__name__, 'play raised %r' % (rep.exc,))
                return run
            pb = rep.value
            summ = (V.canon(svc2.last_result) if svc2.last_result is not None else type(svc2.last_raised).__name__,
                    sorted((k, v) for k, v in R.outputs_as_map(pb.recorded_outputs)[0].items()))
            if first is None:
                first = summ
            elif summ != first:
                what = 'replay-result' if summ[0] != first[0] else 'recorded-outputs'
                run.violate('replays_observe_originals', 'second-replay-differs:%s' % what,
                            'the second replay differs from the first after values handed out by the first were mutated (%s)' % what)
            # within one replay: a second call of the same input must see the original again (fresh copy per read) - via observations
            # mutate what this replay handed out
            for o in pb.recorded_outputs:
                if V.mutate_in_place(tape, o.value):
                    mutated += 1
                    run.probe('mutated_recorded_output')
            for o in pb.playback_outputs:
                if V.mutate_in_place(tape, o.value):
                    run.probe('mutated_playback_output')
            # what was handed out as recorded outputs was just mutated: the recording attached to this Playback (what a
            # comparison-data extractor receives) must still read the recorded values
            rr = pb.original_recording
            for k in keys:
                if V.canon(rr.get_data(k)) != originals[k]:
                    run.violate('reads_are_fresh_copies', 'recorded-outputs-alias-the-recording',
                                'mutating Playback.recorded_outputs changed what Playback.original_recording reads under %r' % (k[:60],))
                    break
            for k in keys[:3]:
                V.mutate_in_place(tape, rr.get_data(k))
        # observations of the replay equal a replay that does not mutate (each injected value is a fresh copy)
        rep_rec = TapeRecorder(cas2)
        def strip_mut(steps):
            out = []
            for st in steps:
                if st[0] == 'mut':
                    continue
                out.append(['spawn', [strip_mut(b) for b in st[1]], st[2]] if st[0] == 'spawn' else st)
            return out
        spec_clean = copy.copy(spec_play)
        spec_clean.body = strip_mut(spec_play.body)
        env3 = R.Env(spec_clean, run, rep_rec)
        svc3 = R.Service(spec_clean, env3, rep_rec, thread_factory=real_thread_factory)
        rep3 = R.call_outcome(lambda: rep_rec.play(rec_id, lambda recording: svc3.invoke()))
        if rep3.kind == 'return' and first is not None:
            clean = V.canon(svc3.last_result) if svc3.last_result is not None else type(svc3.last_raised).__name__
            run.check(clean == first[0], 'replays_observe_originals', 'mutation-visible-to-later-call',
                      'a replay whose code mutates injected inputs observed other values than a replay that does not mutate')
        run.nontrivial = mutated > 0 or run.probes.get('service_mutated_value', 0) > 0
    finally:
        store.close()
    return run
