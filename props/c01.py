"""C01 Replay on unchanged code reproduces the recorded run (DESIGN.md section 4, C01)."""
import os

from simkit import REPO, seams
from simkit import values as V
from simkit.core import Run, HarnessError
from simkit.sim import Sim, SimDeadlock, SimLimit

from playback.tape_recorder import TapeRecorder

from engines import recplay as R
from engines import cassettes as C

PROP = 'C01'
TARGET = os.path.join(REPO, 'playback')

META = {
    'engine': 'recplay',
    'level': 'exploration',
    'level_text': ('Seeded generation of services (operation shapes, decorator kinds, resolvers, capture subsets, handlers, '
                   'nesting, worker threads) and faithful-domain values; each is recorded through a real cassette '
                   '(memory / file / S3-over-fake-bucket), the recorder and cassette objects are restarted, and the same '
                   'program is replayed with the environment armed as a tripwire; threaded programs run both phases under '
                   'the seeded line-level scheduler.  Evidence, not proof: programs and schedules are sampled. Also: input bodies that modify their arguments in place, and the library\'s DEBUG logging switched on.'),
    'level_note': ('Trusted: generator / interpreter / journal in engines/recplay.py, fake S3 bucket (simkit/fakes3.py), '
                   'scheduler. Assumes inputs are functions of alias + captured arguments, no mutation after capture, '
                   'values inside the pinned serializer\'s faithful domain (checked per generated value).'),
    'rule': ('evaluation = one generated service recorded once and replayed once after a restart of recorder and cassette '
             'objects; non-trivial = the recording was saved and the replay answered at least one interception from it; '
             'distinct = distinct event-log digest (program text, journal of both phases, outputs).'),
    'assumptions': ['input is a function of its alias and captured arguments', 'intercepted objects are not mutated after capture',
                    'values are in the faithful domain of the pinned jsonpickle (each generated value is round-trip checked)',
                    'threaded programs use disjoint aliases per thread (deterministic service)',
                    'cross-process replay under another PYTHONHASHSEED is exercised by C06 (hash-seed dependent keys)'],
    'components_real': ['TapeRecorder', 'MemoryRecording', 'InMemoryTapeCassette', 'FileBasedTapeCassette',
                        'S3TapeCassette + S3BasicFacade', 'jsonpickle/zlib'],
    'components_stub': ['boto3 / S3 (in-memory bucket)', 'thread scheduling', 'uuid, clock', 'the service and its environment'],
    'budgets': {'quick': {'seconds': 30}, 'thorough': {'seconds': 480}},
    'required_probes': {'thorough': ['alias_called_3plus_times', 'ordinal_ge_10', 'exception_replayed', 'handler_restored',
                                     'nested_suppressed', 'threaded_program', 'cassette_memory', 'cassette_file', 'cassette_s3']},
}


def run_tape(tape):
    import contextlib
    with seams.deterministic(tape) as clock:
        with contextlib.ExitStack() as stack:
            return _run(tape, clock, stack)


def _run(tape, clock, stack):
    run = Run(PROP)
    flavour = V.set_flavour(tape)
    threaded = tape.draw(4) == 3
    preempt = tape.choice([0.0, 0.02, 0.1, 0.4])
    big = tape.draw(4) == 3
    if tape.draw(5) == 4:
        # the service runs with the library's DEBUG logging on (recording and replay): logging is not behaviour
        stack.enter_context(seams.debug_logging())
        run.probe('library_logging_at_debug_level')
    spec = R.gen_service(tape, run, max_steps=30 if big else 10, max_inputs=4, max_outputs=3, threads=threaded,
                         value_depth=3 if tape.draw(3) == 2 else 2, arg_mutating_inputs=True)
    R.fill_outcomes(tape, run, spec)
    if tape.draw(4) == 3:
        spec.op.params = {'copy_data_on_intercepion': True}
    if tape.draw(5) == 4:
        spec.body.append(['raise', tape.choice(R.D.EXC_CLASSES)])
    has_spawn = any(st[0] == 'spawn' for st in spec.body)
    store = C.gen_store(tape, clock)
    run.config = {'cassette': store.describe(), 'threaded': has_spawn}
    for line in spec.describe():
        run.say(line)
    run.say('cassette %s' % store.describe())
    run.probe('cassette_' + store.kind)
    try:
        if has_spawn:
            run.probe('threaded_program')
            sim = Sim(tape, run, preempt_p=preempt, prim_p=max(preempt, 0.1), target_prefixes=[TARGET], max_steps=150000)
            try:
                sim.run_main(lambda: scenario(run, spec, store, tape, R.sim_thread_factory(sim)))
            except SimDeadlock as ex:
                run.violate('no_deadlock', 'deadlock', str(ex))
            except SimLimit as ex:
                raise HarnessError(str(ex))
        else:
            scenario(run, spec, store, tape, R.inline_thread_factory)
    finally:
        store.close()
    return run


def scenario(run, spec, store, tape, tf):
    rec = R.record_once(spec, run, store.open(), rseed=1, thread_factory=tf)
    run.ev('recorded', rec.outcome.canon(), rec.saved)
    run.say('record: %r saved=%s id=%s' % (rec.outcome, rec.saved, rec.rec_id))
    if not rec.saved:
        run.violate('recording_saved', 'not-saved', 'fault-free recording at sampling rate 1 was not saved: %s' % (rec.spy.calls,))
        return
    if not R.recording_in_faithful_domain(rec):
        run.probe('recording_outside_faithful_domain')
        run.say('recording content is outside the faithful domain of the pinned serializer: run discarded')
        return
    counts = {}
    for c in rec.svc.checks:
        counts[c.alias] = counts.get(c.alias, 0) + 1
    if any(n >= 3 for n in counts.values()):
        run.probe('alias_called_3plus_times')
    if any(n >= 10 for a, n in counts.items() if a in set(o.alias for o in spec.outputs)):
        run.probe('ordinal_ge_10')
    if any(j[4] for j in rec.env.journal):
        run.probe('nested_suppressed')
    # restart: new cassette object over the same durable state, new recorder, new service classes
    cas2 = store.open(read_only=True)
    recorder2 = TapeRecorder(cas2)
    if tape.draw(3) == 2 and not any(st[0] == 'spawn' for st in spec.body):
        # the replaying recorder has a history: an earlier replay of this recording by edited code failed half-way
        R.failing_replay(spec, run, tape, cas2, rec.rec_id, recorder2)
    rep = R.replay_once(spec, run, cas2, rec.rec_id, thread_factory=tf, recorder=recorder2)
    run.say('replay: %r' % (rep.outcome,))
    if rep.outcome.kind != 'return':
        ex = rep.outcome.exc
        run.violate('replay_completes', 'play-raised:%s' % type(ex).__name__, 'play() of a complete recording on unchanged code raised %r' % (ex,))
        return
    run.nontrivial = len(rec.svc.checks) > 0
    # tripwire: no wrapped body may run in replay
    run.check(not rep.env.journal, 'bodies_not_executed', 'body-executed-in-replay',
              lambda: 'replay executed wrapped bodies: %s' % (rep.env.journal[:4],))
    # every interception got the value (or exception type) it got while recording; operation reaches same result
    a, b = rec.outcome, rep.op_outcome
    if b is None:
        run.violate('same_result', 'operation-not-run', 'the playback function did not run the operation to an end')
    elif a.canon() != b.canon():
        run.violate('same_result', 'journal-differs:%s->%s' % (a.kind, b.kind),
                    'recorded run observed %r but replay observed %r' % (a, b))
    ta = dict((t[0], t[2]) for t in rec.svc.threads)
    tb = dict((t[0], t[2]) for t in rep.svc.threads)
    for name in ta:
        if V.canon(ta[name]) != V.canon(tb.get(name)):
            run.violate('same_result', 'thread-journal-differs', 'thread %s observed %s, replay %s' % (
                name, V.short(ta[name], 300), V.short(tb.get(name), 300)))
    if any(c.identical_raise is not None for c in rec.svc.checks):
        run.probe('exception_replayed')
    # outputs one for one (as maps: order is not promised)
    pb = rep.playback
    pm, pd = R.outputs_as_map(pb.playback_outputs)
    rm, rd = R.outputs_as_map(pb.recorded_outputs)
    run.check(not pd and not rd, 'outputs_one_for_one', 'duplicate-output-key', lambda: 'duplicate output keys %s %s' % (pd, rd))
    if pm != rm:
        diff = sorted(set(k for k in set(pm) | set(rm) if pm.get(k) != rm.get(k)))
        run.violate('outputs_one_for_one', 'outputs-differ:%s' % ('missing' if set(pm) != set(rm) else 'value'),
                    'playback outputs differ from recorded outputs at %s' % (diff[:5],))
    opkey = 'output: %s #1.output' % TapeRecorder.OPERATION_OUTPUT_ALIAS
    run.check(opkey in pm and opkey in rm, 'outputs_one_for_one', 'operation-output-missing',
              'the implicit operation output is missing from playback or recorded outputs')
    run.check(pb.original_recording.id == rec.rec_id, 'right_recording', 'wrong-recording-id', 'Playback carries another recording')
    run.ev('replayed', b.canon() if b else None, sorted(pm.items()), len(rep.env.journal))
