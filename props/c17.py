"""C17 The sampling policy alone decides which recordings are kept (DESIGN.md section 4, C17)."""
import math
import sys
from random import Random

from simkit import seams
from simkit import values as V
from simkit.core import Run
from simkit.runner import safe_run_tape
from simkit.tape import Tape

from playback.tape_recorder import TapeRecorder
from playback.tape_cassettes.in_memory.in_memory_tape_cassette import InMemoryTapeCassette

from engines import recplay as R
from engines import cassettes as C

PROP = 'C17'

SKIPPED = [False, True]
RATES = [0.0, 0.3, 1.0, 1.5]
FORCED = [False, True]
IGNORE = [False, True]
DISCARD = [False, True]
OUTCOMES = ['return', 'raise', 'interrupt']
DRAWS = [0.05, 0.9]
ORDER = ['force_first', 'discard_first']
OPKIND = ['instance', 'class']
DIMS = [SKIPPED, RATES, FORCED, IGNORE, DISCARD, OUTCOMES, DRAWS, ORDER, OPKIND]
NROWS = 1
for d in DIMS:
    NROWS *= len(d)
CHUNK = 128
NCHUNKS = (NROWS + CHUNK - 1) // CHUNK

META = {
    'engine': 'recplay',
    'level': 'exploration',
    'level_text': ('The decision table skipped x rate {0, 0.3, 1, 1.5} x forced x ignore-forcing x discard x outcome {return, raise, '
                   'interrupt} x scripted draw {well inside, well outside} x order of force/discard x instance / class-level operation (3072 rows) is enumerated '
                   'completely against the real recorder with a scripted RNG that counts draws; beyond it seeded histories: '
                   'same seed twice, paired histories differing only in operation content and outcome, long-run kept fraction, '
                   'histories mixing classes with different parameters (force must not leak), and the S3 size-based calculator. Also: a straggler thread forcing sampling after its operation ended, one decorated operation inherited by classes with different parameters (and parameters applied after the first run), and a storage that fails to abort on discard. A worker of the previous operation still inside its force / discard request while the next operation runs (two placed pre-emptions). How a class got its parameters (object / keywords / none); an explicit discard after recording was switched off.'),
    'level_note': 'Trusted: scripted RNG seam (recorder._random / cassette._random instance attributes), spy cassette. The exact draw stream of the real RNG and a draw exactly equal to the rate are deliberately not pinned.',
    'rule': ('evaluation = one table row, or one seeded history (200-2000 operations on one recorder); non-trivial = the row / history '
             'reached a sampling decision; distinct = distinct event-log digest. exhaustive=true refers to the 3072-row table.'),
    'exhaustive_part': 'decision table of 3072 rows (all combinations listed in level_text)',
    'table_chunks': {'quick': NCHUNKS, 'thorough': NCHUNKS},
    'assumptions': ['uniform draws are taken from the recorder\'s own Random instance', 'operations are not nested'],
    'components_real': ['TapeRecorder sampling decision, force / discard / skip handling', 'S3TapeCassette._should_sample', 'random.Random (history part)'],
    'components_stub': ['scripted RNG (table part)', 'spy cassette', 'S3 bucket'],
    'budgets': {'quick': {'seconds': 25}, 'thorough': {'seconds': 300}},
    'required_probes': {'quick': ['table_row'], 'thorough': ['table_row', 'history_same_seed', 'history_paired', 'history_mixed_classes', 's3_calculator', 'straggler_force', 'operation_inherited_by_classes_with_other_parameters', 'parameters_applied_after_first_run', 'abort_fails_on_discard', 'straggler_overlaps_next_operation', 'discard_after_recording_was_switched_off', 'class_without_recording_parameters']},
}


def straggler_force(tape):
    """A worker thread of the operation asks for forced sampling while the operation is returning; whatever happens to
    that recording, the request must not stick to the recorder: the next operation is decided by its own policy."""
    import os
    from simkit import REPO
    from simkit.sim import Sim, SimDeadlock
    run = Run(PROP)
    placed = tape.draw(260)            # 0: random pre-emption; k+1: the worker starts at once and is pre-empted at its line point k ...
    placed2 = tape.draw(80)            # ... and gets the processor back at line point m of the second operation (0: only when main waits)
    p_random = tape.choice([0.05, 0.2, 0.5])
    if placed:
        sim = Sim(tape, run, preempt_p=0.0, prim_p=0.0, placements={placed - 1: 0}, eager_start=True, record_points=True,
                  target_files=[os.path.join(REPO, 'playback', 'tape_recorder.py')], max_steps=60000)
        run.probe('straggler_preempted_at_a_placed_point')
    else:
        sim = Sim(tape, run, preempt_p=p_random, target_files=[os.path.join(REPO, 'playback', 'tape_recorder.py')], max_steps=60000)
    spy = R.SpyCassette(InMemoryTapeCassette(), run)
    recorder = TapeRecorder(spy)
    rng = R.ScriptedRandom([], default=0.9)
    recorder._random = rng
    first_params = {'sampling_rate': tape.choice([0.0, 0.3, 1.0]), 'ignore_enforced_sampling': bool(tape.draw(2))}
    action = tape.choice(['force', 'force', 'discard'])
    overlap = tape.draw(2) == 1        # the next operation starts while the worker of the first one is still at it
    first = simple_spec('OpA', [['spawn', [[[action]] * (1 + tape.draw(2))], True]], first_params)
    second_params = {'sampling_rate': tape.choice([0.0, 0.3, 1.0] if overlap else [0.0, 0.3]), 'ignore_enforced_sampling': bool(tape.draw(2))}
    second = simple_spec('OpB', [], second_params)
    result = {}

    def main():
        a = R.record_once(first, run, spy, recorder=recorder, thread_factory=R.sim_thread_factory(sim))
        if not overlap:
            for name, th, tobs, strag in a.svc.threads:
                th.join()
            result['idle_forced'] = recorder.is_recording_sample_forced
        before = len(spy.calls)
        if placed and placed2:
            sim.placements[sim.line_points + placed2 - 1] = 0
        result['first_outcome'] = a.outcome
        result['second_outcome'] = R.record_once(second, run, spy, recorder=recorder).outcome
        for name, th, tobs, strag in a.svc.threads:
            th.join()
        # (a late discard of the first recording may reach the cassette only now: count the second recording's own calls)
        second_ids = [c[1] for c in spy.calls[before:] if c[0] == 'create']
        result['second'] = [c[0] for c in spy.calls[before:] if c[0] != 'create' and c[1] in second_ids]
        first_ids = [c[1] for c in spy.calls[:before] if c[0] == 'create']
        result['first'] = [c[0] for c in spy.calls if c[0] != 'create' and c[1] in first_ids]
        result['idle_forced_at_end'] = recorder.is_recording_sample_forced
    try:
        sim.run_main(main)
    except SimDeadlock as ex:
        run.violate('decision_in_history', 'deadlock', str(ex))
        return run
    run.probe('straggler_force')
    if sim.point_owner is not None:
        run.config['point_owner'] = list(sim.point_owner)
    run.nontrivial = sim.switches > 2
    run.say('first %s then %s: second operation %s, forced flag while idle %s' % (first_params, second_params, result.get('second'), result.get('idle_forced')))
    run.ev('straggler', first_params, second_params, result.get('second'), result.get('idle_forced'))
    for which in ('first_outcome', 'second_outcome'):
        oc = result.get(which)
        if oc is not None and oc.kind != 'return':
            origin = R.origin_note(oc.exc) if oc.exc is not None else ('?', '?', '')
            run.violate('outcome_unchanged', 'operation-raised-with-a-late-worker:%s@%s' % (origin[0], origin[1]),
                        'the %s operation (empty body) raised %r while a worker of the first operation was still inside its %s request' % (
                            which.split('_')[0], oc.exc, action))
    run.check(not result.get('idle_forced'), 'force_not_sticky', 'sticky-force-after-straggler', 'forced sampling is set on an idle recorder after a worker thread asked for it while its operation ended')
    run.check(not result.get('idle_forced_at_end'), 'force_not_sticky', 'sticky-force-after-straggler', 'forced sampling is set on an idle recorder after the late worker thread finished')
    exp = expected_keep(False, second_params['sampling_rate'], False, second_params['ignore_enforced_sampling'], False, 0.9)
    got = '+'.join(result.get('second', [])) or 'none'
    if overlap:
        # the late request may land in the second operation's recording (it is the recorder's current one): then it decides
        # like a request of that operation; in every case the second recording is finalised exactly once
        run.probe('straggler_overlaps_next_operation')
        run.check(len(result.get('first', [])) == 1, 'decision_in_history', 'first-recording-not-finalised-once',
                  lambda: 'the first recording was finalised %s' % (result.get('first'),))
        allowed = set([exp, 'abort' if action == 'discard' else ('save' if not second_params['ignore_enforced_sampling'] else exp)])
        if got not in allowed:
            run.violate('decision_in_history', 'history-row:late-%s-of-previous-operation' % action,
                        'a worker of the previous operation was still inside its %s request when the next operation (rate %s) ran: that one was finalised as %r, allowed %s' % (
                            action, second_params['sampling_rate'], got, sorted(allowed)))
        return run
    if got != exp:
        run.violate('decision_in_history', 'history-row:leak-from-straggler', 'after a straggler force request the next operation (rate %s, no force) was %s, policy says %s' % (second_params['sampling_rate'], got, exp))
    return run


def run_tape(tape):
    with seams.deterministic(tape) as clock:
        mode = tape.draw(8)
        if mode == 7:
            return inherited_operation(tape)
        if mode == 6:
            return straggler_force(tape)
        if mode == 1:
            return table_row(tape)
        if mode in (0, 2):
            return history_pair(tape)
        if mode in (3, 4):
            return history_mixed(tape)
        return s3_calculator(tape, clock)


def decode_row(idx):
    vals = []
    for d in DIMS:
        vals.append(d[idx % len(d)])
        idx //= len(d)
    return vals


def simple_spec(name, steps, params, kind='instance'):
    spec = R.ServiceSpec()
    spec.op.name = name
    spec.op.kind = kind
    spec.op.params = params
    spec.body = steps
    return spec


def expected_keep(skipped, rate, forced, ignore, discard, draw):
    """The documented policy (reference model)."""
    if skipped:
        return 'none'
    if discard:
        return 'abort'
    if forced and not ignore:
        return 'save'
    if rate >= 1:
        return 'save'
    return 'save' if draw <= rate else 'abort'


def table_row(tape):
    run = Run(PROP)
    idx = tape.draw(NROWS)
    skipped, rate, forced, ignore, discard, outcome, draw, order, opkind = decode_row(idx)
    steps = []
    fd = ([['force']] if forced else []) + ([['discard']] if discard else [])
    if order == 'discard_first':
        fd.reverse()
    steps += fd
    if outcome == 'raise':
        steps.append(['raise', R.D.ErrA])
    elif outcome == 'interrupt':
        steps.append(['interrupt'])
    params = {'sampling_rate': rate, 'ignore_enforced_sampling': ignore, 'skipped': skipped}
    spec = simple_spec('OpA', steps, params, opkind)
    spy = R.SpyCassette(InMemoryTapeCassette(), run)
    recorder = TapeRecorder(spy)
    rng = R.ScriptedRandom([draw])
    recorder._random = rng
    rec = R.record_once(spec, run, spy, recorder=recorder)
    calls = spy.mutations()
    got = 'none' if not calls else '+'.join(c[0] for c in calls if c[0] != 'create')
    exp = expected_keep(skipped, rate, forced, ignore, discard, draw)
    row = '%s-level operation skipped=%s rate=%s forced=%s ignore=%s discard=%s outcome=%s draw=%s %s' % (opkind, skipped, rate, forced, ignore, discard, outcome, draw, order)
    run.say('row %d: %s -> %s (model %s), %d draws' % (idx, row, got, exp, rng.draws))
    run.ev('row', idx, got, rng.draws, rec.outcome.kind)
    run.probe('table_row')
    run.nontrivial = True
    run.check(rec.outcome.kind == outcome, 'outcome_unchanged', 'outcome', lambda: 'operation ended by %s, expected %s' % (rec.outcome.kind, outcome))
    if got != exp:
        run.violate('decision_table', 'row:%s' % ('skipped' if skipped else ('discard' if discard else ('forced' if forced and not ignore else 'rate'))),
                    'row %s: cassette saw %s, policy says %s' % (row, got, exp))
    run.check(rng.draws <= 1, 'at_most_one_draw', 'draws', lambda: 'row %s: %d draws for one decision' % (row, rng.draws))
    run.check(not recorder.is_recording_sample_forced, 'force_not_sticky', 'sticky-force', 'force flag still set after the operation')
    return run


def content_spec(tape, run, name, params):
    """An operation with arbitrary content and outcome (for paired histories)."""
    spec = R.gen_service(tape, run, max_steps=4, max_inputs=2, max_outputs=1)
    R.fill_outcomes(tape, run, spec)
    spec.op.name = name
    spec.op.kind = 'instance'
    spec.op.extractor = None
    spec.op.params = params
    k = tape.draw(5)
    if k == 3:
        spec.body.append(['raise', R.D.ErrB])
    elif k == 4:
        spec.body.append(['interrupt'])
    return spec


def keep_sequence(run, specs, seed):
    spy = R.SpyCassette(InMemoryTapeCassette(), run)
    recorder = TapeRecorder(spy, random_seed=seed)
    seq = []
    for spec in specs:
        before = len(spy.calls)
        R.record_once(spec, run, spy, recorder=recorder)
        fin = [c[0] for c in spy.calls[before:] if c[0] in ('save', 'abort')]
        seq.append(fin[0] if len(fin) == 1 else '+'.join(fin) or 'none')
    return seq


def history_pair(tape):
    run = Run(PROP)
    V.set_flavour(tape)
    rate = tape.choice([0.3, 0.5, 0.1, 0.8])
    n = tape.choice([200, 400, 2000])
    seed = tape.draw(100000)
    params = {'sampling_rate': rate}
    plain = [simple_spec('OpA', [], params)] * n
    varied = [content_spec(tape, run, 'OpA', params) for _ in range(min(n, 60))]
    varied = [varied[i % len(varied)] for i in range(n)]
    a1 = keep_sequence(run, plain, seed)
    a2 = keep_sequence(run, plain, seed)
    b = keep_sequence(run, varied, seed)
    run.probe('history_same_seed')
    run.probe('history_paired')
    run.nontrivial = True
    run.say('history of %d operations at rate %s seed %d: kept %d' % (n, rate, seed, a1.count('save')))
    run.ev('hist', rate, n, seed, a1.count('save'), b.count('save'))
    run.check(a1 == a2, 'reproducible_from_seed', 'same-seed-differs', 'same seed, same history, different keep sequences')
    if a1 != b:
        i = next(i for i in range(n) if a1[i] != b[i])
        run.violate('independent_of_content_and_outcome', 'content-dependent',
                    'keep decision #%d differs between a plain history and one with other content/outcomes (%s vs %s; body %s)' % (
                        i, a1[i], b[i], R.describe_steps(varied[i].body)))
    kept = a1.count('save')
    sigma = math.sqrt(n * rate * (1 - rate))
    run.check(abs(kept - n * rate) <= 6 * sigma + 1, 'kept_fraction', 'fraction',
              lambda: 'kept %d of %d at rate %s (more than 6 sigma off)' % (kept, n, rate))
    run.check(set(a1) <= set(['save', 'abort']), 'finalised_once', 'finalisation', lambda: 'odd finalisations %s' % (set(a1),))
    return run


def history_mixed(tape):
    """Classes with different parameters on one recorder; forcing in one run must not leak into the next."""
    run = Run(PROP)
    spy = R.SpyCassette(InMemoryTapeCassette(), run)
    recorder = TapeRecorder(spy)
    rng = R.ScriptedRandom([])
    recorder._random = rng
    classes = []
    for name in R.OP_NAMES[:1 + tape.draw(4)]:
        # how the class got its parameters: a RecordingParameters object, keyword arguments of the decorator, or not at all
        classes.append((name, {'sampling_rate': tape.choice(RATES), 'ignore_enforced_sampling': bool(tape.draw(2)),
                               'skipped': tape.draw(5) == 4}, tape.choice(['object', 'kwargs', 'none'])))
    n = 3 + tape.draw(12)
    run.probe('history_mixed_classes')
    run.nontrivial = True
    for i in range(n):
        name, params, style = tape.choice(classes)
        if style == 'none':
            params = {'sampling_rate': 1.0, 'ignore_enforced_sampling': False, 'skipped': False}      # the documented defaults
            run.probe('class_without_recording_parameters')
        forced, discard = tape.draw(3) == 2, tape.draw(5) == 4
        outcome = tape.choice(OUTCOMES)
        draw = tape.choice(DRAWS)
        steps = ([['force']] if forced else []) + ([['discard']] if discard else [])
        if outcome == 'raise':
            steps.append(['raise', R.D.ErrA])
        elif outcome == 'interrupt':
            steps.append(['interrupt'])
        rng.values = [draw]
        before_draws = rng.draws
        before = len(spy.calls)
        # the storage may fail to abort: the discard has still been decided
        spy.abort_raises = discard and tape.draw(4) == 3
        if spy.abort_raises:
            run.probe('abort_fails_on_discard')
        sp = simple_spec(name, steps, None if style == 'none' else params)
        sp.op.params_style = 'kwargs' if style == 'kwargs' else 'object'
        R.record_once(sp, run, spy, recorder=recorder)
        spy.abort_raises = False
        calls = [c[0] for c in spy.calls[before:]]
        got = 'none' if not calls else '+'.join(c for c in calls if c != 'create')
        exp = expected_keep(params['skipped'], params['sampling_rate'], forced, params['ignore_enforced_sampling'], discard, draw)
        run.say('#%d %s %s forced=%s discard=%s %s draw=%s -> %s (model %s)' % (i, name, params, forced, discard, outcome, draw, got, exp))
        run.ev('mixed', i, name, got)
        if got != exp:
            run.violate('decision_in_history', 'history-row:%s' % ('leak?' if not forced and got == 'save' else 'other'),
                        'operation #%d (%s %s forced=%s discard=%s draw=%s): cassette saw %s, policy says %s' % (i, name, params, forced, discard, draw, got, exp))
        run.check(rng.draws - before_draws <= 1, 'at_most_one_draw', 'draws', 'more than one draw for one decision')
    return run


def inherited_operation(tape):
    """One decorated operation declared on a base class and inherited by service classes that carry different recording
    parameters (and parameters applied to a class after its operation already ran): every run is decided by the
    parameters of the class it runs on."""
    from playback.tape_recorder import RecordingParameters
    run = Run(PROP)
    spy = R.SpyCassette(InMemoryTapeCassette(), run)
    recorder = TapeRecorder(spy)
    recorder.enable_recording()
    rng = R.ScriptedRandom([])
    recorder._random = rng
    opkind = tape.choice(OPKIND)
    plan = {}

    def body():
        if plan['forced']:
            recorder.force_sample_recording()
        if plan.get('switch_off'):
            recorder.disable_recording()        # recording is switched off mid-operation (an explicit discard still wins)
        if plan['discard']:
            try:
                recorder.discard_recording()
            except IOError:
                if not plan['swallow']:
                    raise
        if plan['outcome'] == 'raise':
            raise R.D.ErrA()
        if plan['outcome'] == 'interrupt':
            raise R.D.Interrupt()
        return 'done'

    if opkind == 'class':
        class Base(object):
            @classmethod
            @recorder.class_operation()
            def execute(cls):
                return body()
    else:
        class Base(object):
            @recorder.operation()
            def execute(self):
                return body()
    classes = []
    for n in range(2 + tape.draw(3)):
        params = {'sampling_rate': tape.choice(RATES), 'ignore_enforced_sampling': bool(tape.draw(2)), 'skipped': tape.draw(3) == 2}
        late = tape.draw(4) == 3          # parameters are applied only after the class ran once with the defaults
        cls = type('Service%d' % n, (Base,), {})
        if not late:
            recorder.recording_params(RecordingParameters(**params))(cls)
        classes.append([cls, params, late])
    run.probe('operation_inherited_by_classes_with_other_parameters')
    run.nontrivial = True
    defaults = {'sampling_rate': 1, 'ignore_enforced_sampling': False, 'skipped': False}
    for i in range(3 + tape.draw(10)):
        entry = tape.choice(classes)
        cls, params, late = entry
        eff = defaults if late else params
        plan.update(forced=tape.draw(3) == 2, discard=tape.draw(4) == 3, outcome=tape.choice(OUTCOMES), swallow=bool(tape.draw(2)))
        plan['switch_off'] = plan['discard'] and tape.draw(3) == 2
        if plan['switch_off']:
            run.probe('discard_after_recording_was_switched_off')
        draw = tape.choice(DRAWS)
        rng.values = [draw]
        before_draws, before = rng.draws, len(spy.calls)
        spy.abort_raises = plan['discard'] and tape.draw(3) == 2
        if spy.abort_raises:
            run.probe('abort_fails_on_discard')
        try:
            (cls if opkind == 'class' else cls()).execute()
            ended = 'return'
        except R.D.ErrA:
            ended = 'raise'
        except R.D.Interrupt:
            ended = 'interrupt'
        except IOError:
            ended = plan['outcome'] if (spy.abort_raises and not plan['swallow'] and not eff['skipped']) else 'storage error in the service'
        spy.abort_raises = False
        recorder.enable_recording()
        calls = [c[0] for c in spy.calls[before:]]
        got = 'none' if not calls else '+'.join(c for c in calls if c != 'create')
        exp = expected_keep(eff['skipped'], eff['sampling_rate'], plan['forced'], eff['ignore_enforced_sampling'], plan['discard'], draw)
        run.say('#%d %s %s%s forced=%s discard=%s %s draw=%s -> %s (model %s)' % (i, cls.__name__, eff, ' (defaults, parameters come later)' if late else '',
                                                                          plan['forced'], plan['discard'], plan['outcome'], draw, got, exp))
        run.ev('inherited', i, cls.__name__, got, ended)
        run.check(ended == plan['outcome'], 'outcome_unchanged', 'outcome', lambda: 'operation ended by %s, expected %s' % (ended, plan['outcome']))
        if got != exp:
            run.violate('decision_in_history', 'history-row:inherited-operation',
                        'operation #%d on %s (%s forced=%s discard=%s draw=%s), declared on a base class shared with classes of other parameters: cassette saw %s, policy says %s' % (
                            i, cls.__name__, eff, plan['forced'], plan['discard'], draw, got, exp))
        run.check(rng.draws - before_draws <= 1, 'at_most_one_draw', 'draws', 'more than one draw for one decision')
        run.check(not recorder.is_recording_sample_forced, 'force_not_sticky', 'sticky-force', 'force flag still set after the operation')
        if late:
            recorder.recording_params(RecordingParameters(**params))(cls)
            entry[2] = False
            run.probe('parameters_applied_after_first_run')
    return run


def s3_calculator(tape, clock):
    """Storage-level sampling by a size-based calculator follows the same rule."""
    run = Run(PROP)
    store = C.Store('s3', key_prefix=tape.choice(['a', 'ab', 'a/b']), clock=clock)
    seen = []
    ratio = tape.choice([0.0, 0.3, 1.0, 1.5])
    draw = tape.choice(DRAWS)

    def calculator(category, size, recording):
        seen.append((category, size, recording.id))
        return ratio
    cas = store.open(sampling_calculator=calculator)
    rng = R.ScriptedRandom([draw])
    cas._random = rng
    r = cas.create_new_recording('OpA_b')
    r.set_data('k', V.gen_faithful(tape, run))
    r.add_metadata({'m': 1})
    cas.save_recording(r)
    present = any(k.endswith(r.id) for k in store.world.snapshot().get('bkt', {}))
    exp = ratio >= 1 or draw <= ratio
    run.probe('s3_calculator')
    run.nontrivial = True
    run.say('s3 calculator ratio=%s draw=%s -> stored=%s (model %s)' % (ratio, draw, present, exp))
    run.ev('s3calc', ratio, draw, present, rng.draws)
    run.check(present == exp, 's3_calculator_policy', 'calculator-%s' % ('kept' if present else 'dropped'),
              'ratio %s draw %s: stored=%s, policy says %s' % (ratio, draw, present, exp))
    run.check(len(seen) == 1 and seen[0][0] == 'OpA_b' and seen[0][2] == r.id and seen[0][1] > 0, 's3_calculator_arguments', 'calculator-args',
              lambda: 'calculator saw %s' % (seen,))
    run.check(rng.draws <= 1, 'at_most_one_draw', 'draws', 'more than one draw')
    n = len([k for k in store.world.snapshot().get('bkt', {})])
    run.check(n in (0, 2), 's3_calculator_policy', 'partial-objects', 'sampled-out recording left %d objects' % n)
    return run


def run_index(i, seed, tier, emit):
    mod = sys.modules[__name__]
    if i < NCHUNKS:
        for row in range(i * CHUNK, min(NROWS, (i + 1) * CHUNK)):
            t = Tape(seed, prefix=[1, row])
            emit(safe_run_tape(mod, t), t)
        return
    t = Tape(seed)
    if t.rng.random() < 0.0:
        pass
    t = Tape(seed, prefix=[[0, 3, 5, 2, 4, 7, 6, 6, 7][i % 9]])
    emit(safe_run_tape(mod, t), t)
    if i % 9 == 6:
        # the same straggler scenario with its single pre-emption placed at every line point in turn
        t0 = Tape(seed, prefix=[6, 259, 0])
        r0 = safe_run_tape(mod, t0)
        emit(r0, t0)
        owner = r0.config.get('point_owner') or []
        ks = [k for k in range(len(owner)) if owner[k] != 0] or list(range(0, 250, 2))
        for k in ks[::1 if tier != 'quick' else 2]:
            for m in range(0, 80, 2 if tier != 'quick' else 5):
                t = Tape(seed, prefix=[6, k + 1, m])
                emit(safe_run_tape(mod, t), t)
