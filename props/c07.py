"""C07 Stored recordings round-trip through every cassette (DESIGN.md section 4, C07)."""
from simkit import seams
from simkit import values as V
from simkit.core import Run

from playback.exceptions import NoSuchRecording

from engines import cassettes as C
from engines import storage as S

PROP = 'C07'


def R_UNSER():
    from simkit.dynclasses import Unserializable
    return Unserializable(1)

META = {
    'engine': 'storage',
    'level': 'exploration',
    'level_text': ('Seeded histories of saves on the real in-memory, file and S3 cassettes (S3 over an in-memory bucket, key prefixes "", "a", "ab", '
                   '"a/b", page sizes 1 / 2 / 1000) with key texts full of quotes, backslashes, unicode, separators and JSON metacharacters, '
                   'values and metadata from the faithful domain (shared sub-objects between keys in the sharing flavour), interleaved with '
                   'fetches, metadata-only fetches, fetches of ids never saved and restarts (new cassette object over the same durable state); '
                   'every fetch is compared with a reference store. Also: several threads saving, and several threads fetching, through ONE cassette object under the line-level scheduler (pre-emption inside the serializer), failed saves, storage-level sampling. Categories as services name them (dotted, versioned).'),
    'level_note': 'Trusted: ModelStore (a dict), fake S3 bucket, whole-document faithful-domain guard (serializer limits are not cassette defects). Recording keys "_metadata" and serializer tags are excluded.',
    'rule': ('evaluation = one history (1-12 saves, 2-20 reads, 0-3 restarts) on one cassette; non-trivial = at least one recording with >= 2 keys was '
             'saved and fetched after a restart or after later saves; distinct = distinct event-log digest.'),
    'assumptions': ['values / metadata within the faithful domain of the pinned serializer (checked per recording as one document)',
                    'recording keys are not "_metadata" and not serializer tags', 'no crash points here (S3 crash points are C15)'],
    'components_real': ['InMemoryTapeCassette', 'FileBasedTapeCassette', 'S3TapeCassette + S3BasicFacade', 'MemoryRecording', 'jsonpickle / zlib'],
    'components_stub': ['boto3 / S3 (in-memory bucket with paging)', 'uuid / clock'],
    'budgets': {'quick': {'seconds': 25}, 'thorough': {'seconds': 420}},
    'required_probes': {'thorough': ['cassette_memory', 'cassette_file', 'cassette_s3', 's3_empty_prefix', 'restart', 'unknown_id', 'metadata_only_fetch',
                                     'shared_subobject', 'odd_key_text', 'concurrent_saves', 'concurrent_fetches', 'failed_save']},
}


# categories as a service may name them: class names, module-qualified names, versioned names
CATS = list(S.CATEGORIES) + ['services.planning.Optimize', 'v1.5', 'services.planning']


def concurrent_saves(run, tape, clock, store, flavour):
    """Several threads of one process (request handlers of a service) save their recordings through one cassette
    object at the same time, under the seeded line-level scheduler; every recording must still round-trip."""
    import os
    from simkit import REPO
    from simkit.sim import Sim, SimDeadlock
    sim = Sim(tape, run, preempt_p=tape.choice([0.05, 0.2, 0.5]), target_prefixes=[os.path.join(REPO, 'playback', 'tape_cassettes'),
                                                                                  os.path.join(REPO, 'playback', 'tape_cassette.py')], max_steps=100000)
    cas = store.open()
    jobs = []
    for n in range(2 + tape.draw(2)):
        data, metadata = gen_recording(tape, run, flavour)
        if V.doc_faithful({'d': data, 'm': metadata}):
            jobs.append((tape.choice(S.CATEGORIES), data, metadata))
    saved = {}
    run.probe('concurrent_saves')

    def saver(cat, data, metadata):
        def body():
            r = cas.create_new_recording(cat)
            for k, v in data.items():
                r.set_data(k, v)
            r.add_metadata(metadata)
            try:
                cas.save_recording(r)
                saved[r.id] = (data, metadata, None)
            except Exception as ex:
                saved[r.id] = (data, metadata, ex)
        return body

    def main():
        tasks = [sim.spawn(saver(*j), name='saver%d' % n) for n, j in enumerate(jobs)]
        for t in tasks:
            sim.join(t)
    try:
        sim.run_main(main)
    except SimDeadlock as ex:
        run.violate('fetch_saved', 'deadlock', str(ex))
        return
    run.nontrivial = sim.switches > len(jobs) + 1
    reader = store.open(read_only=True)
    for rid in sorted(saved):
        data, metadata, err = saved[rid]
        if err is not None:
            run.violate('fetch_saved', 'concurrent-save-raised:%s' % type(err).__name__, 'save_recording(%s) raised %r while another thread was saving another recording' % (rid, err))
            continue
        try:
            compare(run, 'after concurrent saves', rid, reader.get_recording(rid), data, metadata)
        except Exception as ex:
            run.violate('fetch_saved', 'get-raised:%s' % type(ex).__name__, 'get_recording(%s) after concurrent saves raised %r' % (rid, ex))
    run.ev('concurrent', store.describe(), sorted(saved), sim.switches)
    good = [rid for rid in sorted(saved) if saved[rid][2] is None]
    if len(good) >= 2 and not run.violations:
        concurrent_fetches(run, tape, store, dict((rid, saved[rid][:2]) for rid in good))


def concurrent_fetches(run, tape, store, saved):
    """Several threads fetch (different and the same) recordings through ONE cassette object at the same time, with
    pre-emption inside the serializer as well; every fetch must still return its own recording."""
    import os
    import jsonpickle
    from simkit import REPO
    from simkit.sim import Sim, SimDeadlock
    sim = Sim(tape, run, preempt_p=tape.choice([0.01, 0.05, 0.2]),
              target_prefixes=[os.path.join(REPO, 'playback', 'tape_cassettes'), os.path.join(REPO, 'playback', 'tape_cassette.py'),
                               os.path.join(REPO, 'playback', 'recordings'), os.path.dirname(jsonpickle.__file__)], max_steps=400000)
    reader = store.open(read_only=True)
    rids = sorted(saved)
    plan = [rids[tape.draw(len(rids))] for _ in range(2 + tape.draw(2))]
    if len(set(plan)) == 1:
        plan[0] = next(r for r in rids if r != plan[0])
    got = {}
    run.probe('concurrent_fetches')

    def fetcher(n, rid):
        def body():
            try:
                r = reader.get_recording(rid)
                got[n] = (rid, r, reader.get_recording_metadata(rid), None)
            except Exception as ex:
                got[n] = (rid, None, None, ex)
        return body

    def main():
        tasks = [sim.spawn(fetcher(n, rid), name='fetcher%d' % n) for n, rid in enumerate(plan)]
        for t in tasks:
            sim.join(t)
    try:
        sim.run_main(main)
    except SimDeadlock as ex:
        run.violate('fetch_saved', 'deadlock', str(ex))
        return
    for n in sorted(got):
        rid, r, md, err = got[n]
        data, metadata = saved[rid]
        if err is not None:
            run.violate('fetch_saved', 'concurrent-get-raised:%s' % type(err).__name__, 'get_recording(%s) raised %r while another thread was fetching through the same cassette' % (rid, err))
            continue
        compare(run, 'fetched while other threads were fetching', rid, r, data, metadata)
        run.check(V.canon(md) == V.canon(metadata), 'metadata_alone_agrees', 'metadata-alone-differs-under-concurrency',
                  lambda: 'get_recording_metadata(%s) under concurrency differs from the saved metadata' % rid)
    run.ev('concurrent_fetches', store.describe(), plan, sim.switches)


def run_tape(tape):
    with seams.deterministic(tape) as clock:
        run = Run(PROP)
        flavour = V.set_flavour(tape)
        store = C.gen_store(tape, clock, nonempty_prefix=False)
        if tape.draw(5) == 4:
            try:
                concurrent_saves(run, tape, clock, store, flavour)
            finally:
                store.close()
            return run
        run.probe('cassette_' + store.kind)
        if store.kind == 's3' and store.key_prefix == '':
            run.probe('s3_empty_prefix')
        try:
            scenario(run, tape, clock, store, flavour)
        finally:
            store.close()
        return run


def gen_recording(tape, run, flavour):
    nkeys = tape.weighted([(1, 0), (2, 1), (3, 2), (3, 3 + tape.draw(6)), (1, 20)])
    keys = tape.shuffle(S.KEY_TEXTS)[:nkeys] if nkeys <= len(S.KEY_TEXTS) else S.KEY_TEXTS
    if nkeys > len(keys):
        keys = keys + ['key%d' % i for i in range(nkeys - len(keys))]
    data = {}
    shared = V.gen_faithful(tape, run, 2) if flavour == 'sharing' else None
    for k in keys:
        if shared is not None and V.is_mutable(shared) and tape.draw(3) == 0:
            data[k] = {'value': shared}
            run.probe('shared_subobject')
        else:
            data[k] = V.gen_faithful(tape, run, 2)
        if k not in ('k',):
            run.probe('odd_key_text')
    metadata = {}
    for mk in tape.shuffle(['m', 'user name', u'ünï', 'q"', 'list', 'obj'])[:tape.draw(5)]:
        metadata[mk] = V.gen_faithful(tape, run, 2)
    return data, metadata


def compare(run, what, rid, got, data, metadata):
    try:
        ok_id = got.id == rid
        keys = sorted(got.get_all_keys())
        run.check(ok_id, 'same_id', 'id-differs', lambda: '%s: fetched id %r for %r' % (what, got.id, rid))
        if keys != sorted(data):
            run.violate('same_keys', 'keys-differ', '%s: keys of %s differ: missing %s extra %s' % (
                what, rid, [k[:30] for k in set(data) - set(keys)][:3], [k[:30] for k in set(keys) - set(data)][:3]))
            return
        for k in keys:
            if V.canon(got.get_data(k)) != V.canon(data[k]):
                run.violate('equal_data', 'data-differs', '%s: data under key %r of %s is %s, saved %s' % (what, k[:40], rid, V.short(got.get_data(k), 200), V.short(data[k], 200)))
                return
        if V.canon(got.get_metadata()) != V.canon(metadata):
            run.violate('equal_metadata', 'metadata-differs', '%s: metadata of %s is %s, saved %s' % (what, rid, V.short(got.get_metadata(), 200), V.short(metadata, 200)))
    except Exception as ex:
        run.violate('fetch_usable', 'fetched-recording-unusable:%s' % type(ex).__name__, '%s: reading the fetched recording %s raised %r' % (what, rid, ex))


def scenario(run, tape, clock, store, flavour):
    cas = store.open()
    model = {}
    order = []
    restarted_since = {}
    nops = 3 + tape.draw(25)
    run.say('cassette %s flavour %s' % (store.describe(), flavour))
    for n in range(nops):
        op = tape.weighted([(4, 'save'), (4, 'get'), (2, 'meta'), (2, 'unknown'), (1, 'restart'), (1, 'advance_day'), (1, 'failed_save')])
        if op == 'failed_save':
            # a save that does not happen: the value cannot be serialized, the storage request fails, or (S3) the
            # recording is sampled out at storage level.  The id was then never saved: fetching it must say so.
            cat = tape.choice(CATS)
            how = tape.choice(['unserializable', 'put_fails', 'sampled_out'])
            r = cas.create_new_recording(cat)
            r.set_data('k', R_UNSER() if how == 'unserializable' else 1)
            r.add_metadata({'m': 1})
            run.probe('failed_save')
            if how == 'put_fails' and store.kind == 's3':
                store.world.fail_put = len(store.world.log) + tape.draw(2)
            if how == 'sampled_out' and store.kind == 's3':
                cas.sampling_calculator = lambda category, size, recording: 0.0
            try:
                cas.save_recording(r)
                happened = how != 'unserializable' and not (store.kind == 's3' and how in ('put_fails', 'sampled_out'))
            except Exception:
                happened = False
            if store.kind == 's3':
                store.world.fail_put = None
                cas.sampling_calculator = None
            if happened:
                model[r.id] = (cat, {'k': 1}, {'m': 1})
                order.append(r.id)
                continue
            if store.kind == 's3':
                objs = store.world.snapshot().get('bkt', {})
                have = ['tape_recorder_recordings/%s%s/%s' % (cas.key_prefix, part, r.id) in objs for part in ('full', 'metadata')]
                if all(have):
                    model[r.id] = (cat, {'k': 1}, {'m': 1})
                    order.append(r.id)
                    continue
                if any(have):
                    continue        # a save that stopped half-way is C15's subject
            for fn_name in ('get_recording', 'get_recording_metadata'):
                try:
                    got = getattr(cas, fn_name)(r.id)
                    run.violate('unknown_id_signalled', 'failed-save-id-returned', '%s(%s) of a recording whose save failed (%s) returned %r' % (fn_name, r.id, how, got))
                except NoSuchRecording:
                    pass
                except Exception as ex:
                    run.violate('unknown_id_signalled', 'failed-save-id-raised:%s' % type(ex).__name__,
                                '%s(%s) of a recording whose save failed (%s) raised %r instead of NoSuchRecording (%s)' % (fn_name, r.id, how, ex, store.describe()))
            run.ev('failed_save', how, r.id)
            continue
        if op == 'save' and len(model) < 12:
            cat = tape.choice(CATS)
            data, metadata = gen_recording(tape, run, flavour)
            if not V.doc_faithful({'d': data, 'm': metadata}):
                run.probe('outside_faithful_domain')
                continue
            r = cas.create_new_recording(cat)
            for k, v in data.items():
                r.set_data(k, v)
            if metadata or tape.draw(2):
                r.add_metadata(metadata)
            cas.save_recording(r)
            model[r.id] = (cat, data, metadata)
            order.append(r.id)
            run.say('save %s (%d keys, %d metadata keys)' % (r.id, len(data), len(metadata)))
            run.ev('save', r.id, sorted(data), sorted(metadata))
            run.check(cas.extract_recording_category(r.id) == cat, 'category_of_id', 'category', lambda: 'category of %s is %r' % (r.id, cas.extract_recording_category(r.id)))
        elif op == 'get' and model:
            rid = tape.choice(order)
            cat, data, metadata = model[rid]
            try:
                got = cas.get_recording(rid)
            except Exception as ex:
                run.violate('fetch_saved', 'get-raised:%s' % type(ex).__name__, 'get_recording(%s) of a saved recording raised %r' % (rid, ex))
                continue
            if got is None:
                run.violate('fetch_saved', 'get-returned-none', 'get_recording(%s) returned None' % rid)
                continue
            compare(run, 'get_recording', rid, got, data, metadata)
            if len(data) >= 2 and (restarted_since.get(rid) or order[-1] != rid):
                run.nontrivial = True
            run.ev('get', rid)
        elif op == 'meta' and model:
            rid = tape.choice(order)
            cat, data, metadata = model[rid]
            run.probe('metadata_only_fetch')
            try:
                md = cas.get_recording_metadata(rid)
                run.check(V.canon(md) == V.canon(metadata), 'metadata_alone_agrees', 'metadata-alone-differs',
                          lambda: 'get_recording_metadata(%s) = %s, saved %s' % (rid, V.short(md, 200), V.short(metadata, 200)))
            except Exception as ex:
                run.violate('metadata_alone_agrees', 'metadata-fetch-raised:%s' % type(ex).__name__, 'get_recording_metadata(%s) raised %r' % (rid, ex))
            run.ev('meta', rid)
        elif op == 'unknown':
            base = tape.choice(order) if order and tape.draw(2) else '%s/%s' % (tape.choice(CATS), '20200101/' if store.kind == 's3' else '')
            rid = base[:-3] + 'zzz' if base in model else base + 'never-saved'
            if rid in model:
                continue
            run.probe('unknown_id')
            for fn_name in ('get_recording', 'get_recording_metadata'):
                try:
                    got = getattr(cas, fn_name)(rid)
                    run.violate('unknown_id_signalled', 'unknown-id-returned:%s' % ('none' if got is None else 'something'),
                                '%s(%r) of an id never saved returned %r instead of raising NoSuchRecording (%s)' % (fn_name, rid, got, store.describe()))
                except NoSuchRecording:
                    pass
                except Exception as ex:
                    run.violate('unknown_id_signalled', 'unknown-id-raised:%s' % type(ex).__name__, '%s(%r) raised %r instead of NoSuchRecording' % (fn_name, rid, ex))
            run.ev('unknown', rid)
        elif op == 'restart':
            cas = store.open()
            run.probe('restart')
            for rid in model:
                restarted_since[rid] = True
            run.say('restart')
            run.ev('restart')
        elif op == 'advance_day':
            clock.advance(86400 * (1 + tape.draw(3)))
    # final sweep after a restart: everything saved is there
    cas = store.open(read_only=True)
    for rid in order:
        cat, data, metadata = model[rid]
        try:
            got = cas.get_recording(rid)
            compare(run, 'final get_recording', rid, got, data, metadata)
        except Exception as ex:
            run.violate('fetch_saved', 'get-raised:%s' % type(ex).__name__, 'final get_recording(%s) raised %r' % (rid, ex))
