#!/bin/bash
# usage: tools/try_mutant.sh <patch.diff> <seconds> <PROP> [PROP...]
# Applies the patch to a scratch copy of /repo (outside /repo and /verif), runs the given checks against it
# through VERIF_REPO, prints one line per check, removes the scratch copy.
patch=$(realpath "$1"); secs=$2; shift 2
scratch=$(mktemp -d /tmp/mutant-XXXXXX)
git -C /repo archive HEAD | tar -x -C "$scratch"
if ! git -C "$scratch" apply --unsafe-paths "$patch" 2>/dev/null; then (cd "$scratch" && patch -p1 -s < "$patch") || { echo "PATCH-FAILED $patch"; rm -rf "$scratch"; exit 3; }; fi
cd "$(dirname "$0")/.."
for p in "$@"; do
  out=$(VERIF_REPO="$scratch" VERIF_SHRINK_S=${VERIF_SHRINK_S:-10} VERIF_REPLAY_DIR=/tmp/mutant-replays timeout 1800 ./check $p --tier ${VERIF_TIER:-quick} --seconds $secs 2>&1); code=$?
  sigs=$(echo "$out" | grep "signature:" | sed 's/.*signature: //' | sort -u | head -4 | tr '\n' ' ')
  echo "$p exit=$code $sigs"
done
rm -rf "$scratch"
