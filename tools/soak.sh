#!/bin/bash
# Soak: every check's quick tier under many base seeds; prints only problems and a summary line per round.
# usage: tools/soak.sh <first seed> <rounds> [tier]
cd "$(dirname "$0")/.."
first=${1:-2}; rounds=${2:-10}; tier=${3:-quick}
for ((s=first; s<first+rounds; s++)); do
  bad=0
  for p in C01 C02 C03 C04 C05 C06 C07 C08 C09 C10 C11 C12 C13 C14 C15 C16 C17 C18 C19 C20; do
    out=$(VERIF_SEED=$s timeout 3600 ./check $p --tier $tier 2>&1); code=$?
    if [ $code -ne 0 ]; then bad=1; echo "SOAK-PROBLEM seed=$s $p exit=$code"; echo "$out" | grep -E "VIOLATION|signature|message|HARNESS" | head -12; fi
  done
  echo "soak round seed=$s tier=$tier done bad=$bad $(date +%H:%M:%S)"
done
