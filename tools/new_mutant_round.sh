#!/bin/bash
# usage: tools/new_mutant_round.sh <round dir, e.g. /tmp/wt5> <ids...>
# Prepares one scratch worktree of /repo HEAD per property for a sub-agent that writes seeded changes: PROPERTY.json (the
# property alone) and ALREADY_TRIED.md (the notes of earlier rounds).  Nothing from /verif's machinery is copied.
root=$1; shift
mkdir -p "$root"
for id in "$@"; do
  wt=$root/$id
  git -C /repo worktree add --detach "$wt" HEAD >/dev/null 2>&1 || { echo "cannot add $wt"; continue; }
  grep "\"id\": \"$id\"" /verif/properties.jsonl > "$wt/PROPERTY.json"
  : > "$wt/ALREADY_TRIED.md"
  for old in /tmp/wt /tmp/wt2 /tmp/wt3 /tmp/wt4 /tmp/wt5 /tmp/wt6 /tmp/wt7 /tmp/wt8; do
    [ "$old" = "$root" ] && continue
    [ -f "$old/$id/mutants/README.md" ] && { echo; echo "# ---- earlier round ($old)"; cat "$old/$id/mutants/README.md"; } >> "$wt/ALREADY_TRIED.md"
  done
  echo "$id: $(wc -l < "$wt/ALREADY_TRIED.md") lines of earlier notes"
done
