#!/bin/bash
# usage: tools/eval_mutant.sh <Cxx> <a|b> [seconds] [extra props...]
# Confirms an agent-made mutant in its scratch worktree (suite still passes, demo fails with it, passes without it),
# then runs the property's check against a scratch copy of /repo HEAD with the mutant applied. One result line.
id=$1; m=$2; secs=${3:-40}; shift 3
wt=/tmp/wt/$id; diff=$wt/mutants/$m.diff; demo=$wt/mutants/demo_$m.py
cd $wt || exit 2
git checkout -q -- playback
git apply $diff || { echo "$id/$m APPLY-FAILED-IN-WT"; exit 0; }
suite=$(timeout 600 /venv/bin/python -m pytest -q -p no:cacheprovider --timeout=900 --continue-on-collection-errors 2>&1 | tail -1 | grep -o "[0-9]* passed")
timeout 120 /venv/bin/python $demo >/tmp/eval-$id-$m.with 2>&1; dw=$?
git checkout -q -- playback
timeout 120 /venv/bin/python $demo >/tmp/eval-$id-$m.without 2>&1; dwo=$?
cd /verif
res=""
for p in $id "$@"; do
  r=$(VERIF_WORKERS=${VERIF_WORKERS:-6} tools/try_mutant.sh $diff $secs $p 2>&1 | tail -1)
  res="$res | $r"
done
echo "$id/$m suite=[$suite] demo_with_exit=$dw demo_without_exit=$dwo $res"
