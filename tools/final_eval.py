#!/venv/bin/python
"""Runs the registered checks against every seeded change (scratch copy of /repo HEAD + patch, VERIF_REPO) and writes
seeded/<id>/meta.json['final_evaluation'] and seeded/RESULTS.md.   usage: tools/final_eval.py [seconds] [only ids...]"""
import glob, json, os, re, subprocess, sys
from concurrent.futures import ThreadPoolExecutor

VERIF = os.path.dirname(os.path.dirname(os.path.abspath(__file__)))
secs = int(sys.argv[1]) if len(sys.argv) > 1 else 30
only = sys.argv[2:]
FALLBACK = ['C09', 'C02', 'C11', 'C18', 'C15', 'C04', 'C10', 'C03', 'C17', 'C16', 'C08', 'C05', 'C06', 'C01', 'C13', 'C14', 'C19', 'C07', 'C12', 'C20']


def run(patch, prop, s, tier='quick'):
    p = subprocess.run('VERIF_WORKERS=%s VERIF_SHRINK_S=2 VERIF_TIER=%s tools/try_mutant.sh %s %d %s' % (os.environ.get('FINAL_EVAL_WORKERS', '8'), tier, patch, s, prop), shell=True, cwd=VERIF, capture_output=True, text=True, timeout=3600)
    lines = [l for l in (p.stdout + p.stderr).splitlines() if l.startswith(prop) or 'PATCH-FAILED' in l]
    return lines[-1] if lines else 'no-output'


RUN_TAG = os.environ.get('FINAL_EVAL_RUN', '')
# checks whose subject overlaps a property's (tried right after the property's own quick tier)
STATIC_HINTS = {'C01': ['C12', 'C11'], 'C02': ['C06', 'C04'], 'C04': ['C05', 'C17'], 'C05': ['C15', 'C04'], 'C08': ['C13'], 'C09': ['C17', 'C03'],
                'C10': ['C14'], 'C11': ['C04'], 'C13': ['C08', 'C19'], 'C15': ['C07', 'C05'], 'C19': ['C10', 'C08']}


def one(d):
    meta_path = os.path.join(d, 'meta.json')
    meta = json.load(open(meta_path))
    if RUN_TAG and (meta.get('final_evaluation') or {}).get('run') == RUN_TAG:
        return os.path.basename(d), meta['final_evaluation']          # already evaluated in this run
    pid = meta['property']
    patch = os.path.join(d, 'patch_ported.diff')
    if not os.path.exists(patch):
        patch = os.path.join(d, 'patch.diff')
    res = {}
    line = run(patch, pid, secs)
    res[pid] = line
    caught = [pid] if 'exit=1' in line else []
    if 'PATCH-FAILED' in line:
        meta['final_evaluation'] = {'error': 'patch does not apply to the current HEAD of /repo (a later fix: commit changed its context)', 'results': res}
    else:
        if not caught:
            # checks that reported this change in an earlier evaluation (its property's subject often overlaps another's)
            hints = []
            for src in (meta.get('caught_by') or [], (meta.get('final_evaluation') or {}).get('caught_by') or []):
                for h in src:
                    h = h.split(':')[0]
                    if h != pid and h not in hints:
                        hints.append(h)
            for h in STATIC_HINTS.get(pid, []):
                if h not in hints:
                    hints.append(h)
            for p in hints:
                l2 = run(patch, p, secs)
                res[p] = l2
                if 'exit=1' in l2:
                    caught.append(p)
                    break
        if not caught:
            # the property's own thorough tier (deeper sweeps, e.g. two placed pre-emptions) before the remaining checks
            l3 = run(patch, pid, max(120, secs * 5), tier='thorough')
            res[pid + ':thorough'] = l3
            if 'exit=1' in l3:
                caught.append(pid + ':thorough')
        if not caught and not os.environ.get('FINAL_EVAL_NO_FALLBACK'):
            for p in FALLBACK:
                if p == pid or p in res:
                    continue
                l2 = run(patch, p, max(20, secs - 10))
                res[p] = l2
                if 'exit=1' in l2:
                    caught.append(p)
                    break
        meta['final_evaluation'] = {'run': RUN_TAG, 'caught_by': caught, 'results': res, 'seconds_per_check': secs,
                                    'patch_used': os.path.basename(patch)}
    json.dump(meta, open(meta_path, 'w'), indent=1)
    return os.path.basename(d), meta['final_evaluation']


dirs = sorted(d for d in glob.glob(os.path.join(VERIF, 'seeded', 'C*')) if os.path.isdir(d) and (not only or os.path.basename(d) in only))
with ThreadPoolExecutor(max_workers=int(os.environ.get('FINAL_EVAL_PARALLEL', '2'))) as ex:
    for name, fe in ex.map(one, dirs):
        print(name, fe.get('caught_by', fe.get('error')))
        sys.stdout.flush()

# RESULTS.md over everything evaluated so far
rows, missed = [], []
for d in sorted(glob.glob(os.path.join(VERIF, 'seeded', 'C*'))):
    mp = os.path.join(d, 'meta.json')
    if not os.path.exists(mp):
        continue
    m = json.load(open(mp))
    fe = m.get('final_evaluation')
    if not fe:
        continue
    name = os.path.basename(d)
    if fe.get('error'):
        earlier = ', '.join(m.get('caught_by') or []) or 'see meta.json'
        rows.append('| %s | %s | (at the commit it was written for: %s) | %s |' % (name, 'yes' if m.get('confirmed') else 'NO', earlier, fe['error']))
        continue
    sigs = []
    for p in fe.get('caught_by', []):
        line = fe['results'].get(p, '')
        sigs += [x for x in line.split() if x.startswith(p.split(':')[0] + '/')][:2]
    rows.append('| %s | %s | %s | %s |' % (name, 'yes' if m.get('confirmed') else 'NO', ', '.join(fe.get('caught_by', [])) or '**none**', '<br>'.join(sigs)))
    if not fe.get('caught_by'):
        missed.append(name)
with open(os.path.join(VERIF, 'seeded', 'RESULTS.md'), 'w') as f:
    f.write('# Seeded changes and the checks that report them\n\nGenerated by tools/final_eval.py (each check %d s against a scratch copy of /repo with the change applied; the property\'s own check first, '
            'then other checks until one reports it).\n\n| change | confirmed (suite passes, demo fails with / passes without) | reported by | signatures |\n|---|---|---|---|\n' % secs)
    f.write('\n'.join(rows) + '\n\n')
    f.write('## Not reported by any check\n\n' + ('\n'.join('- %s' % m for m in missed) if missed else 'none') + '\n')
print('missed:', missed)
