#!/bin/bash
# Runs every check's quick (default) or thorough tier in sequence; prints one line per property.
tier=${1:-quick}
cd "$(dirname "$0")/.."
rc=0
for p in C01 C02 C03 C04 C05 C06 C07 C08 C09 C10 C11 C12 C13 C14 C15 C16 C17 C18 C19 C20; do
  out=$(timeout 3600 ./check $p --tier $tier 2>&1); code=$?
  echo "$out" | grep -E "VIOLATION|KNOWN-FINDING|HARNESS" 
  echo "$out" | tail -1
  if [ $code -ne 0 ]; then rc=1; echo "   EXIT $code for $p"; fi
done
exit $rc
