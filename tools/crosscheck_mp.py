#!/venv/bin/python
"""Fidelity cross-check of simkit.fake_mp against real multiprocessing (a check of the stub, not of a property).

Runs a few fault-free and single-fault comparison scenarios whose outcome does not depend on sub-second timing
once with real processes and once under the simulator and requires the same verdict sequence."""
import os, sys, time, signal
HERE = os.path.dirname(os.path.dirname(os.path.abspath(__file__)))
sys.path.insert(0, HERE)
from simkit import bind_repo
bind_repo()
import logging
logging.disable(logging.CRITICAL)

from playback.studio.equalizer import Equalizer, EqualityStatus, ComparatorResult, CompareExecutionConfig
from playback.tape_cassettes.in_memory.in_memory_tape_cassette import InMemoryTapeCassette
from playback.tape_recorder import TapeRecorder

SCENARIOS = {
    'healthy': ['equal'] * 5,
    'different': ['equal', 'different', 'equal'],
    'hang_middle': ['equal', 'hang', 'equal', 'equal'],
    'exit_middle': ['equal', 'exit', 'equal', 'equal'],
    'hang_first_and_last': ['hang', 'equal', 'hang'],
    'player_raises': ['equal', 'raises', 'equal'],
    'idle_kill_after_1': ['equal', 'equal', 'equal', 'equal'],
    'helper_process': ['equal', 'helper', 'equal'],
    'thread_left_behind': ['equal', 'thread', 'equal', 'equal', 'equal'],
}


def _helper(q, i):
    q.put(('helped', i))



def real_run(name, behaviours, recycle=3, timeout=1):
    cassette = InMemoryTapeCassette()
    recorder = TapeRecorder(cassette)
    recorder.enable_recording()
    state = {'recording': True}

    class Op(object):
        @recorder.operation()
        def execute(self, i):
            v = self.read(i)
            if not state['recording']:
                b = behaviours[i]
                if b == 'hang':
                    time.sleep(30)
                elif b == 'exit':
                    os._exit(3)
                elif b == 'raises':
                    raise RuntimeError('x')
                elif b == 'thread':
                    import threading
                    threading.Thread(target=lambda: time.sleep(60)).start()      # non-daemon: the worker process cannot exit
                elif b == 'helper':
                    import multiprocessing
                    q = multiprocessing.Queue()
                    h = multiprocessing.Process(target=_helper, args=(q, i))
                    h.start()        # allowed because the comparison worker is not a daemonic process
                    assert q.get(True, 5) == ('helped', i)
                    h.join()
                elif b == 'different':
                    return ('changed', i)
            return (v, i)

        @recorder.intercept_input('read')
        def read(self, i):
            return 'v%d' % i
    ids = []
    for i in range(len(behaviours)):
        Op().execute(i)
        ids.append(cassette.get_last_recording_id())
    state['recording'] = False
    recorder.disable_recording()
    index = dict((r, i) for i, r in enumerate(ids))

    def player(rid):
        return recorder.play(rid, lambda recording: Op().execute(index[recording.id]))

    def extractor(outputs):
        return next(o.value['args'][0] for o in outputs if TapeRecorder.OPERATION_OUTPUT_ALIAS in o.key)

    def comparator(a, b):
        return ComparatorResult(EqualityStatus.Equal if list(a) == list(b) else EqualityStatus.Different, 'm')
    cfg = CompareExecutionConfig(compare_in_dedicated_process=True, compare_process_recycle_rate=recycle, compare_process_timeout=timeout)
    eq = Equalizer(iter(ids), player, extractor, comparator, compare_execution_config=cfg)
    out = []
    for n, c in enumerate(eq.run_comparison()):
        out.append(c.comparator_status.equality_status.name)
        if name.startswith('idle_kill') and n == 0:
            time.sleep(0.3)
            os.kill(eq._compare_process.pid, signal.SIGKILL)
            time.sleep(0.2)
    return out


def sim_run(name, behaviours, recycle=3, timeout=1):
    from simkit.core import Run
    from simkit.tape import Tape
    from simkit import seams
    from engines import equalizer as E
    tape = Tape(7)
    with seams.deterministic(tape):
        run = Run('X')
        sc = E.Scenario(tape, force_dedicated=True)
        sc.n = len(behaviours)
        m = {'equal': 'equal', 'different': 'different', 'hang': 'worker_hang', 'exit': 'worker_abort', 'raises': 'operation_raises', 'helper': 'spawns_helper', 'thread': 'leaves_thread'}
        sc.behaviours = [m[b] for b in behaviours]
        sc.recycle, sc.timeout, sc.keep, sc.jitter, sc.queue_delay, sc.slow_start, sc.preempt = recycle, float(timeout), False, 4, 0.0, 0.0, 0.0
        sc.duplicates, sc.consume, sc.data_extractor = False, 'full', False
        sc.idle_kill = name.startswith('idle_kill')
        sc.idle_kill_at = 0
        out = E.run_scenario(run, tape, sc)
        return [E.status_name(c) for c in out.comparisons]


def _sleeper(e):
    e.wait(30)


def event_with_killed_sleeper_real():
    """multiprocessing.Event.set() after a process was SIGKILLed inside wait(): blocks (waits for the sleeper's ack)."""
    import multiprocessing, threading
    e = multiprocessing.Event()
    p = multiprocessing.Process(target=_sleeper, args=(e,))
    p.start()
    time.sleep(0.5)
    os.kill(p.pid, signal.SIGKILL)
    p.join()
    done = []
    t = threading.Thread(target=lambda: (e.set(), done.append(1)))
    t.daemon = True
    t.start()
    t.join(2)
    return 'returns' if done else 'blocks'


def event_with_killed_sleeper_sim():
    from simkit.core import Run
    from simkit.tape import Tape
    from simkit.sim import Sim, SimDeadlock
    from simkit.fake_mp import FakeMP
    tape = Tape(1)
    run = Run('X')
    sim = Sim(tape, run, trace_lines=False)
    mp_ = FakeMP(sim, run, tape)
    out = []

    def main():
        e = mp_.Event()
        p = mp_.Process(target=lambda: e.wait(30))
        p.start()
        sim.sleep(0.5)
        p.kill()
        p.join()
        e.set()
        out.append('returns')
    try:
        sim.run_main(main)
    except SimDeadlock:
        out.append('blocks')
    return out[0] if out else 'blocks'


def main():
    bad = 0
    a, b = event_with_killed_sleeper_real(), event_with_killed_sleeper_sim()
    print('%-22s real=%s sim=%s %s' % ('event_killed_sleeper', a, b, 'OK' if a == b else 'MISMATCH'))
    bad += a != b
    for name, beh in SCENARIOS.items():
        a = real_run(name, beh)
        b = sim_run(name, beh)
        ok = a == b
        if name.startswith('idle_kill'):
            # the victim is the recording in flight or the next one: compare the multiset and that exactly one failed
            ok = sorted(a) == sorted(b) and a.count('EqualizerFailure') == 1
        print('%-22s real=%s sim=%s %s' % (name, a, b, 'OK' if ok else 'MISMATCH'))
        bad += not ok
    return 1 if bad else 0


if __name__ == '__main__':
    sys.exit(main())
