#!/venv/bin/python
"""Regenerates /verif/MANIFEST.json from the META of every props/cNN.py (run after adding or changing a check)."""
import importlib
import json
import os
import sys

HERE = os.path.dirname(os.path.dirname(os.path.abspath(__file__)))
sys.path.insert(0, HERE)
from simkit import bind_repo  # noqa
bind_repo()

props = [json.loads(l) for l in open(os.path.join(HERE, 'properties.jsonl'))]
checks, na, engines = [], [], {}
NOT_BUILT = 'check not built yet (build in progress; planned in DESIGN.md section 4)'
for p in props:
    pid = p['id']
    path = os.path.join(HERE, 'props', pid.lower() + '.py')
    if not os.path.exists(path):
        na.append({'property_id': pid, 'reason': NOT_BUILT})
        continue
    mod = importlib.import_module('props.' + pid.lower())
    m = mod.META
    if m.get('not_applicable'):
        na.append({'property_id': pid, 'reason': m['not_applicable']})
        continue
    engines.setdefault(m['engine'], []).append(pid)
    checks.append({
        'property_id': pid,
        'quick_cmd': 'timeout 600 ./check %s --tier quick' % pid,
        'thorough_cmd': ('timeout 3600 sh -c "PYTHONHASHSEED=0 tools/crosscheck_mp.py >/dev/null || { echo HARNESS-ERROR fake multiprocessing disagrees with real multiprocessing; exit 2; }; ./check %s --tier thorough"' % pid)
                        if pid in ('C08', 'C13') else 'timeout 3600 ./check %s --tier thorough' % pid,
        'evidence_file': '/verif/evidence/%s.json' % pid,
        'replay_cmd_template': './check replay {path}',
        'engine': m['engine'],
        'level_claimed': {'category': m['level'], 'text': m['level_text'], 'design_ref': 'DESIGN.md section 4, %s' % pid},
        'level_note': m['level_note'],
        'technique': m.get('technique', 'deterministic simulation with fault injection: seeded search over generated '
                                        'workloads, fault placements and schedules against an executable oracle'),
    })
ENGINE_TEXT = {
    'recplay': ('engines/recplay.py', 'generated service recorded and replayed by the real TapeRecorder over real cassettes; seeded thread scheduler for threaded programs'),
    'storage': ('engines/storage.py', 'histories of saves / lookups / restarts on the real in-memory, file and S3 cassettes (S3 over an in-memory fake bucket with crash points)'),
    'async': ('engines/async_cassette.py', 'real AsyncRecordOnlyTapeCassette under the simulated scheduler (threads, lock, event, flush timer on virtual time)'),
    'equalizer': ('engines/equalizer.py', 'real Equalizer over simulated processes, queues, kill and virtual clock'),
    'studio': ('engines/studio.py', 'real PlaybackStudio + Equalizer + TapeRecorder over each cassette type'),
}
manifest = {
    'version': 1,
    'setup_cmd': '/venv/bin/python -c "import jsonschema, jsonpickle, playback, decorator, parse, six, pytz"',
    'hooks': {
        'guard': 'PLAYBACK_VERIF',
        'enable': 'no hook exists in /repo: every seam is a module-level name (Thread/Lock/Event, multiprocessing, os, time, datetime, uuid, boto3, open) that the harness rebinds from outside; checks import playback from $VERIF_REPO (default /repo) working tree',
        'baseline_off_cmd': 'cd /repo && /venv/bin/python -m pytest -ra -q -p no:cacheprovider --timeout=900 --continue-on-collection-errors',
        'source_commits': [],
        'add_only': True,
    },
    'engines': [{'name': k, 'path': ENGINE_TEXT[k][0], 'serves_properties': v, 'kind_free_text': ENGINE_TEXT[k][1]}
                for k, v in sorted(engines.items())],
    'checks': checks,
    'notes': 'All checks: ./check <id> --tier quick|thorough; replay: ./check replay <file>; determinism self-test: ./check selftest [<id>]. '
             'Exit 0 held, 1 violation (VIOLATION line), 2 harness error (HARNESS-ERROR line). Known findings: known_findings.json. '
             'VERIF_SEED selects the base seed; VERIF_REPO points the checks at another working tree.',
    'not_applicable': na,
}
import jsonschema
jsonschema.validate(manifest, json.load(open('/root/.vp/MANIFEST.schema.json')))
json.dump(manifest, open(os.path.join(HERE, 'MANIFEST.json'), 'w'), indent=1)
print('checks: %s; not applicable / not built: %s' % ([c['property_id'] for c in checks], [n['property_id'] for n in na]))
