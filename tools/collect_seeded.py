#!/venv/bin/python
"""Confirms agent-made seeded changes and runs the checks against them; writes /verif/seeded/<id>-<m>/.
usage: tools/collect_seeded.py <wt root> <ids...>   (each id dir has mutants/{a,b}.diff, demo_{a,b}.py, README.md, PROPERTY.json)"""
import json, os, shutil, subprocess, sys, re
from concurrent.futures import ThreadPoolExecutor

VERIF = os.path.dirname(os.path.dirname(os.path.abspath(__file__)))
root = sys.argv[1]
ids = sys.argv[2:]
EXTRA = {'C01': ['C09'], 'C03': ['C09'], 'C05': ['C04'], 'C04': ['C05'], 'C09': ['C01'], 'C10': ['C19'], 'C14': ['C10'], 'C08': ['C13'], 'C13': ['C08']}


def sh(cmd, cwd=None, timeout=1800):
    p = subprocess.run(cmd, shell=True, cwd=cwd, capture_output=True, text=True, timeout=timeout)
    return p.returncode, (p.stdout + p.stderr)


def one(idm):
    d, m = idm
    pid = re.match(r'(C\d+)', d).group(1)
    wt = os.path.join(root, d)
    diff = os.path.join(wt, 'mutants', m + '.diff')
    demo = os.path.join(wt, 'mutants', 'demo_%s.py' % m)
    if not os.path.exists(diff):
        return None
    sh('git checkout -q -- playback', wt)
    rc, out = sh('git apply %s' % diff, wt)
    if rc != 0:
        return {'id': d, 'mutant': m, 'error': 'patch does not apply in its worktree: %s' % out[-300:]}
    rc, out = sh('timeout 600 /venv/bin/python -m pytest -q -p no:cacheprovider --timeout=900 --continue-on-collection-errors 2>&1 | tail -1', wt)
    suite = out.strip().splitlines()[-1] if out.strip() else ''
    dw, out_with = sh('timeout 180 /venv/bin/python %s' % demo, wt)
    sh('git checkout -q -- playback', wt)
    dwo, out_without = sh('timeout 180 /venv/bin/python %s' % demo, wt)
    head = sh('git rev-parse --short HEAD', wt)[1].strip()
    results = {}
    for p in [pid] + EXTRA.get(pid, []):
        rc, out = sh('VERIF_WORKERS=6 tools/try_mutant.sh %s 40 %s' % (diff, p), VERIF)
        line = out.strip().splitlines()[-1] if out.strip() else ''
        results[p] = line
    confirmed = ('105 passed' in suite) and dw != 0 and dwo == 0
    caught_by = [p for p, line in results.items() if 'exit=1' in line]
    meta = {
        'property': pid, 'mutant': m, 'base_commit_of_repo': head,
        'confirmed': confirmed,
        'what_i_ran': {
            'suite_with_change': suite, 'demo_with_change_exit': dw, 'demo_without_change_exit': dwo,
            'demo_with_change_tail': out_with.strip().splitlines()[-3:], 'checks_against_scratch_copy_with_change': results,
        },
        'caught_by': caught_by,
        'needs_to_manifest': None,
    }
    readme = os.path.join(wt, 'mutants', 'README.md')
    if os.path.exists(readme):
        meta['author_notes'] = open(readme).read()[:6000]
    dest = os.path.join(VERIF, 'seeded', '%s-%s%s' % (d, os.environ.get('SEEDED_ROUND', ''), m))
    os.makedirs(dest, exist_ok=True)
    shutil.copy(diff, os.path.join(dest, 'patch.diff'))
    shutil.copy(demo, os.path.join(dest, 'demo.py'))
    json.dump(meta, open(os.path.join(dest, 'meta.json'), 'w'), indent=1)
    return {'id': d, 'mutant': m, 'confirmed': confirmed, 'suite': suite[:40], 'caught_by': caught_by, 'results': results}


def per_id(d):
    return [one((d, m)) for m in ('a', 'b', 'c')]


with ThreadPoolExecutor(max_workers=3) as ex:
    for res in ex.map(per_id, ids):
        for r in res:
            if r is None:
                continue
            print(json.dumps(r))
            sys.stdout.flush()
